"""Catalogue of realistic edits used by tools/mutation_audit.py.

"break" mutants must be caught by the named check(s); "benign" ones must leave them quiet.
Anchors are exact text of the current /repo tree (each must occur exactly once).
"""

RT = "testtools/runtest.py"
TC = "testtools/testcase.py"
RP = "testtools/testresult/real.py"
TS = "testtools/testsuite.py"
SP = "testtools/twistedsupport/_spinner.py"
AR = "testtools/twistedsupport/_runtest.py"
DF = "testtools/twistedsupport/_deferred.py"
MT = "testtools/twistedsupport/_matchers.py"
CT = "testtools/content.py"
DS = "testtools/matchers/_datastructures.py"


def m(id, props, file, old, new, expect="break"):
    return {"id": id, "props": props, "edits": [{"file": file, "old": old, "new": new}], "expect": expect}


MUTANTS = [
    # ------------------------------------------------------------------ lifecycle
    m("rt-run_user-exception-only", ["C01"], RT,
      "            return fn(*args, **kwargs)\n        except BaseException:",
      "            return fn(*args, **kwargs)\n        except Exception:"),
    m("rt-stopTest-not-in-finally", ["C01"], RT,
      "        finally:\n            result.stopTest(self.case)\n        return result",
      "            result.stopTest(self.case)\n        except KeyboardInterrupt:\n            raise\n        return result"),
    m("rt-pick-last-exception", ["C01", "C03"], RT,
      "                e = self._pop_exception_to_report()", "                e = self._exceptions.pop()"),
    m("rt-cleanups-stop-at-first-error", ["C02"], RT,
      "            if got_exception == self.exception_caught:\n                failing = True\n",
      "            if got_exception == self.exception_caught:\n                failing = True\n                break\n"),
    m("rt-cleanups-fifo", ["C02"], RT,
      "self.case._cleanups.pop()\n            got_exception", "self.case._cleanups.pop(0)\n            got_exception"),
    m("rt-no-cleanups-after-setup-failure-kbi", ["C01", "C02"], RT,
      "            # Don't run the test method if we failed getting here.\n            self._run_cleanups(self.result)\n",
      "            # Don't run the test method if we failed getting here.\n            if not isinstance(self._exceptions[-1], KeyboardInterrupt):\n                self._run_cleanups(self.result)\n"),
    m("rt-teardown-skipped-when-test-raises-sysexit", ["C01", "C02"], RT,
      "        finally:\n            try:\n                if self.exception_caught == self._run_user(\n                    self.case._run_teardown, self.result\n                ):",
      "        finally:\n            try:\n                if any(isinstance(x, SystemExit) for x in self._exceptions):\n                    pass\n                elif self.exception_caught == self._run_user(\n                    self.case._run_teardown, self.result\n                ):"),
    m("rt-force-failure-ignored-on-setup-failure", ["C07"], RT,
      "            if getattr(self.case, \"force_failure\", None):\n                self._run_user(_raise_force_fail_error)\n            return",
      "            return"),
    m("rt-success-despite-cleanup-failure", ["C01", "C03"], RT,
      "                    if self.exception_caught == self._run_user(\n                        self._run_cleanups, self.result\n                    ):\n                        failed = True",
      "                    self._run_user(self._run_cleanups, self.result)"),
    m("tc-patch-restore-order", ["C02"], "testtools/monkey.py",
      "            obj, name, value = self._originals.pop()", "            obj, name, value = self._originals.pop(0)", expect="benign"),
    m("tc-usefixture-no-cleanup-registered-on-details", ["C02", "C05"], TC,
      "            self.addCleanup(fixture.cleanUp)\n            self.addCleanup(gather_details, fixture.getDetails(), self.getDetails())",
      "            self.addCleanup(fixture.cleanUp)\n            if not fixture.getDetails():\n                return fixture\n            self.addCleanup(gather_details, fixture.getDetails(), self.getDetails())",
      expect="benign"),
    m("tc-traceback-label-overwrites", ["C05"], TC,
      "            if tb_label not in self.getDetails():\n                break",
      "            break"),
    m("tc-gather-details-overwrites", ["C05"], TC,
      "        while new_name in target_dict:\n            new_name = \"%s-%d\" % (name, next(disambiguator))",
      "        while False:\n            new_name = \"%s-%d\" % (name, next(disambiguator))"),
    m("tc-unique-name-off-by-collision", ["C05", "C07"], TC,
      "        while full_name in existing_details:\n            full_name = \"%s-%d\" % (name, suffix)\n            suffix += 1",
      "        if full_name in existing_details:\n            full_name = \"%s-%d\" % (name, suffix)"),
    m("tc-onexception-skips-handlers-for-multi-tail", ["C05"], RT,
      "            for sub_exc_info in exc_info[1].args:\n                self._got_user_exception(sub_exc_info, tb_label)",
      "            for sub_exc_info in exc_info[1].args[:2]:\n                self._got_user_exception(sub_exc_info, tb_label)"),
    m("tc-copy-content-lazy", ["C05"], TC,
      "    content_bytes = list(content_object.iter_bytes())\n\n    def content_callback():\n        return content_bytes",
      "    def content_callback():\n        return list(content_object.iter_bytes())", expect="benign"),
    m("tc-expectThat-raises-on-second-mismatch", ["C07"], TC,
      "            self.force_failure = True\n\n    def _matchHelper",
      "            if getattr(self, 'force_failure', False):\n                raise mismatch_error\n            self.force_failure = True\n\n    def _matchHelper"),
    m("tc-assertThat-swallows-when-forced", ["C07"], TC,
      "        if mismatch_error is not None:\n            raise mismatch_error\n",
      "        if mismatch_error is not None and not getattr(self, 'force_failure', False):\n            raise mismatch_error\n"),
    m("tc-report-skip-drops-details-benign-rename", ["C01", "C05"], TC,
      "        self._add_reason(reason)\n        result.addSkip(self, details=self.getDetails())",
      "        self._add_reason(reason)\n        details = self.getDetails()\n        result.addSkip(self, details=details)", expect="benign"),
    m("tc-expectedFailure-decorator-no-traceback", ["C05"], TC,
      "                if case is not None:\n", "                if case is not None and False:\n"),
    # ------------------------------------------------------------------ C12
    m("tfr-release-not-in-finally", ["C12"], RP,
      "            try:\n                method(test, *args, **kwargs)\n            finally:\n                self.result.stopTest(test)\n        finally:\n            self.semaphore.release()\n        self._test_start = None",
      "            try:\n                method(test, *args, **kwargs)\n            finally:\n                self.result.stopTest(test)\n        except KeyError:\n            pass\n        self.semaphore.release()\n        self._test_start = None"),
    m("tfr-stop-without-semaphore", ["C12"], RP,
      "    def stop(self):\n        self.semaphore.acquire()\n        try:\n            self.result.stop()\n        finally:\n            self.semaphore.release()\n\n    def stopTestRun(self):\n        self.semaphore.acquire()",
      "    def stop(self):\n        self.result.stop()\n\n    def stopTestRun(self):\n        self.semaphore.acquire()"),
    m("tfr-test-tags-not-reset", ["C12", "C17"], RP,
      "                self.result.tags(*self._test_tags)\n            self._test_tags = set(), set()\n",
      "                self.result.tags(*self._test_tags)\n"),
    m("tfr-start-time-taken-at-outcome", ["C12"], RP,
      "            self.result.time(self._test_start)\n            self.result.startTest(test)",
      "            self.result.time(now)\n            self.result.startTest(test)"),
    m("tfr-time-before-acquire", ["C12"], RP,
      "        now = self._now()\n        self.semaphore.acquire()\n        try:\n            self.result.time(self._test_start)",
      "        now = self._now()\n        self.result.time(self._test_start)\n        self.semaphore.acquire()\n        try:"),
    m("tfr-startTestRun-release-not-in-finally", ["C12"], RP,
      "        self.semaphore.acquire()\n        try:\n            self.result.startTestRun()\n        finally:\n            self.semaphore.release()",
      "        self.semaphore.acquire()\n        self.result.startTestRun()\n        self.semaphore.release()"),
    m("tfr-extra-tags-call-benign", ["C12"], RP,
      "            if self._any_tags(self._global_tags):\n                self.result.tags(*self._global_tags)",
      "            if self._any_tags(self._global_tags):\n                self.result.tags(set(), set())\n                self.result.tags(*self._global_tags)", expect="benign"),
    m("tfr-done-double-lock-benign", ["C12"], RP,
      "    def done(self):\n        self.semaphore.acquire()\n        try:\n            self.result.done()",
      "    def done(self):\n        self.semaphore.acquire()\n        try:\n            done = self.result.done\n            done()", expect="benign"),
    # ------------------------------------------------------------------ C13
    m("cts-put-not-in-finally", ["C13"], TS,
      "                case = testtools.ErrorHolder(\"broken-runner\", error=sys.exc_info())\n                case.run(process_result)\n        finally:\n            queue.put(test)",
      "                case = testtools.ErrorHolder(\"broken-runner\", error=sys.exc_info())\n                case.run(process_result)\n        except KeyError:\n            pass\n        queue.put(test)"),
    m("cts-abort-path-exception-only", ["C13"], TS,
      "                del threads[finished_test]\n        except:",
      "                del threads[finished_test]\n        except Exception:"),
    m("csts-abort-path-exception-only", ["C13"], TS,
      "                    raise ValueError(f\"unknown event type {event!r}\")\n        except:",
      "                    raise ValueError(f\"unknown event type {event!r}\")\n        except Exception:"),
    m("cts-no-join", ["C13"], TS,
      "                threads[finished_test][0].join()\n", "                pass\n"),
    m("csts-no-join", ["C13"], TS,
      "                    thread = threads.pop(event_dict[\"result\"])[0]\n                    thread.join()",
      "                    thread = threads.pop(event_dict[\"result\"])[0]"),
    m("csts-broken-runner-dropped", ["C13"], TS,
      "                case = testtools.ErrorHolder(\n                    f\"broken-runner-'{route_code}'\", error=sys.exc_info()\n                )\n                case.run(process_result)",
      "                pass"),
    m("csts-stop-all-misses-one", ["C13"], TS,
      "            for thread, process_result in threads.values():\n                # Signal to each TestControl",
      "            for thread, process_result in list(threads.values())[1:]:\n                # Signal to each TestControl"),
    m("csts-no-timestamping", ["C13"], TS,
      "                process_result = testtools.ExtendedToStreamDecorator(\n                    testtools.TimestampingStreamResult(to_queue)\n                )",
      "                process_result = testtools.ExtendedToStreamDecorator(to_queue)"),
    m("csts-status-delivered-twice-after-start-event", ["C13"], TS,
      "                elif event == \"startTestRun\":\n                    pass",
      "                elif event == \"startTestRun\":\n                    seen_start = True", expect="benign"),
    m("cts-start-before-register", ["C13"], TS,
      "                threads[test] = reader_thread, process_result\n                reader_thread.start()",
      "                reader_thread.start()\n                threads[test] = reader_thread, process_result"),
    m("stq-route-code-dropped-when-nested", ["C13", "C11", "C18"], RP,
      "        return self.routing_code + \"/\" + route_code", "        return self.routing_code"),
]
