#!/venv/bin/python
"""Confirm a sub-agent's seeded change in a scratch copy and file it under /verif/seeded/.

usage: tools/confirm_seeded.py /tmp/seed/out_C13/1 C13-1 [extra check ids...]
Steps (all on scratch copies outside /repo and /verif, removed afterwards):
 1. clean copy: demo.py exits 0;  2. patched copy: `git apply` works, pinned suite unchanged (SUITE-OK), demo.py exits non-zero;
 3. run the property's check (and any extra ones) with VERIF_REPO=<patched copy>; record who catches it.
"""
import json, os, shutil, subprocess, sys, tempfile, time
HERE = os.path.dirname(os.path.abspath(__file__)); VERIF = os.path.dirname(HERE)
SCRATCH = "/var/tmp/vt"

def sh(cmd, **kw):
    return subprocess.run(cmd, capture_output=True, text=True, **kw)

def main():
    src, name = sys.argv[1], sys.argv[2]
    extra = sys.argv[3:]
    meta = json.load(open(os.path.join(src, "meta.json")))
    prop = meta["property"]
    os.makedirs(SCRATCH, exist_ok=True)
    clean = tempfile.mkdtemp(prefix="seedc_", dir=SCRATCH); pat = tempfile.mkdtemp(prefix="seedp_", dir=SCRATCH)
    rec = {"confirmed_at": time.strftime("%Y-%m-%d %H:%M:%S"), "repo_head": sh(["git", "-C", "/repo", "rev-parse", "--short", "HEAD"]).stdout.strip()}
    try:
        for d in (clean, pat):
            subprocess.run(["rsync", "-a", "--exclude", ".git", "--exclude", "__pycache__", "/repo/", d + "/"], check=True)
        demo = os.path.join(src, "demo.py")
        env = dict(os.environ, PYTHONDONTWRITEBYTECODE="1")
        p = sh(["/venv/bin/python", demo], cwd=clean, env=dict(env, PYTHONPATH=clean), timeout=300)
        rec["demo_clean_exit"] = p.returncode
        a = sh(["git", "apply", "--unsafe-paths", "--directory=" + pat, os.path.join(src, "patch.diff")], cwd="/")
        if a.returncode != 0:
            a = sh(["patch", "-p1", "-d", pat, "-i", os.path.join(src, "patch.diff")])
        rec["patch_applies"] = a.returncode == 0
        s = sh([os.path.join(HERE, "suite.sh"), pat])
        rec["suite_ok_with_patch"] = s.returncode == 0
        p2 = sh(["/venv/bin/python", demo], cwd=pat, env=dict(env, PYTHONPATH=pat), timeout=300)
        rec["demo_patched_exit"] = p2.returncode
        rec["demo_patched_output"] = (p2.stdout + p2.stderr)[-600:]
        benign = bool(meta.get("benign"))
        ok = rec["demo_clean_exit"] == 0 and rec["patch_applies"] and rec["suite_ok_with_patch"] and \
            ((rec["demo_patched_exit"] == 0) if benign else (rec["demo_patched_exit"] != 0))
        rec["kept"] = ok
        print(json.dumps({k: v for k, v in rec.items() if k != "demo_patched_output"}))
        if not ok:
            print("NOT CONFIRMED:", rec.get("demo_patched_output", "")[-300:], s.stdout[-300:])
            return 1
        det = {}
        for cid in [prop] + [c for c in extra if c != prop]:
            t0 = time.time()
            r = sh([os.path.join(VERIF, "check"), cid, "--tier", "quick", "--no-evidence"], env=dict(os.environ, VERIF_REPO=pat, VERIF_REPLAY_DIR=os.path.join(pat, "_replays")))
            kinds = []
            for l in r.stdout.splitlines():
                if l.startswith("VIOLATION"):
                    try:
                        v = json.load(open(l.split("replay=")[1]))["violation"]; kinds.append(f"{v['kind']}:{v['key']}")
                    except Exception:
                        pass
            det[cid] = {"exit": r.returncode, "violations": sorted(set(kinds)), "wall_s": round(time.time() - t0, 1)}
            print(cid, det[cid])
        dst = os.path.join(VERIF, "seeded", name)
        os.makedirs(dst, exist_ok=True)
        for f in ("patch.diff", "demo.py"):
            shutil.copy(os.path.join(src, f), os.path.join(dst, f))
        meta.update({"id": name, "checks": [prop] + extra, "confirmation": rec, "detection": det,
                     "what_i_ran": f"tools/confirm_seeded.py {src} {name}: clean copy demo exit {rec['demo_clean_exit']}; patched copy: git apply ok, tools/suite.sh SUITE-OK, demo exit {rec['demo_patched_exit']}; then ./check <id> --tier quick with VERIF_REPO=<patched copy>"})
        json.dump(meta, open(os.path.join(dst, "meta.json"), "w"), indent=1)
        return 0
    finally:
        shutil.rmtree(clean, ignore_errors=True); shutil.rmtree(pat, ignore_errors=True)

if __name__ == "__main__":
    sys.exit(main())
