#!/venv/bin/python
"""Determinism audit: for every check, the same VERIF_SEED and run index must give the same
digest (event log + tape) in a second process, under another worker count and under another
PYTHONHASHSEED in a fresh interpreter.  usage: tools/determinism_audit.py [--runs 2000] [C12 ...]   (with check ids: merge the rewritten tools/determinism_results.json by hand)"""
import json, os, subprocess, sys, tempfile
HERE = os.path.dirname(os.path.abspath(__file__)); VERIF = os.path.dirname(HERE)
ALL = "C01 C02 C03 C04 C05 C06 C07 C08 C09 C10 C11 C12 C13 C14 C15 C16 C17 C18 C20".split()

def digests(cid, runs, jobs, hashseed, seed):
    fd, path = tempfile.mkstemp(suffix=".json"); os.close(fd)
    env = dict(os.environ, PYTHONHASHSEED=str(hashseed), VERIF_SEED=str(seed)); env.pop("VERIF_REEXEC", None)
    p = subprocess.run([os.path.join(VERIF, "check"), cid, "--digests", path, "--runs", str(runs), "--jobs", str(jobs)], env=env, capture_output=True, text=True)
    if p.returncode != 0:
        print(p.stdout, p.stderr); raise SystemExit(2)
    d = json.load(open(path)); os.remove(path); return d

def main():
    args = sys.argv[1:]; runs = 2000
    if "--runs" in args:
        i = args.index("--runs"); runs = int(args[i + 1]); del args[i:i + 2]
    checks = args or ALL; bad = 0; report = {}
    for cid in checks:
        per = {}
        for seed in (20260927, 1):
            a = digests(cid, runs, 16, 0, seed); b = digests(cid, runs, 3, 0, seed); c = digests(cid, runs, 16, 4242, seed)
            diff = [k for k in a if a[k] != b.get(k) or a[k] != c.get(k)]
            per[str(seed)] = {"runs": len(a), "mismatches": len(diff), "first": diff[:5]}
            bad += len(diff)
            print(f"{cid} seed={seed}: {len(a)} runs x (16 workers, 3 workers, PYTHONHASHSEED=4242 fresh interpreter): {len(diff)} mismatches")
        report[cid] = per
    json.dump(report, open(os.path.join(HERE, "determinism_results.json"), "w"), indent=1)
    return 1 if bad else 0

if __name__ == "__main__":
    sys.exit(main())
