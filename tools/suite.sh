#!/bin/bash
# Run the pinned suite on a tree (default /repo) and compare the failing set with the
# baseline's 38 always-failing tests.  Exit 0 iff identical.  (No plain `timeout` wrapper:
# it changes SIGINT handling for two spinner tests.)
ROOT=${1:-/repo}
HERE=$(cd "$(dirname "$0")" && pwd)
OUT=$(mktemp)
cd "$ROOT" && PYTHONDONTWRITEBYTECODE=1 /venv/bin/python -m pytest -q -p no:cacheprovider --timeout=900 --continue-on-collection-errors -q 2>&1 > "$OUT"
grep -E "^(FAILED|ERROR)" "$OUT" | sort > "$OUT.fail"
tail -1 "$OUT"
if diff "$HERE/baseline_fail.txt" "$OUT.fail" > "$OUT.diff"; then echo "SUITE-OK (same 38 baseline failures)"; rm -f "$OUT" "$OUT.fail" "$OUT.diff"; exit 0
else echo "SUITE-DIFFERS:"; cat "$OUT.diff"; rm -f "$OUT" "$OUT.fail" "$OUT.diff"; exit 1; fi
