#!/venv/bin/python
"""Print the markdown table of seeded changes (seeded/*/meta.json) for DESIGN.md section 9.8."""
import glob, json, os
HERE = os.path.dirname(os.path.abspath(__file__)); VERIF = os.path.dirname(HERE)
res = {}
p = os.path.join(HERE, "mutation_results_seeded.json")
if os.path.exists(p):
    res = {r["id"]: r for r in json.load(open(p))["results"]}
print("| id | what the change does | needs, to manifest | caught by (violation kinds) |")
print("|----|----------------------|--------------------|-----------------------------|")
n = c = nb = qb = 0
for f in sorted(glob.glob(os.path.join(VERIF, "seeded", "*", "meta.json"))):
    m = json.load(open(f))
    if m.get("obsolete"):
        print(f"| {m['id']} | (obsolete) | {m['obsolete'][:300].replace('|','/')} | - |")
        continue
    n += 1
    det = res.get("seeded/" + m["id"], {}).get("checks") or m.get("detection", {})
    hits = [f"{k}: {', '.join(v['violations'][:3])}" for k, v in det.items() if v["exit"] == 1]
    if m.get("benign"):
        nb += 1
        quiet = all(v["exit"] == 0 for v in det.values())
        qb += quiet
        s = m["summary"].replace("|", "/").replace("\n", " ")
        print(f"| {m['id']} (benign) | {s[:230]}{'...' if len(s) > 230 else ''} | nothing: behaviour-preserving | {'quiet (as it should be)' if quiet else '**ALARM**: ' + '; '.join(hits)} |")
        n -= 1
        continue
    c += bool(hits)
    s = m["summary"].replace("|", "/").replace("\n", " ")
    need = m.get("needs_to_manifest", "").replace("|", "/").replace("\n", " ")
    print(f"| {m['id']} | {s[:230]}{'...' if len(s) > 230 else ''} | {need[:200]}{'...' if len(need) > 200 else ''} | {'; '.join(hits) if hits else '**not caught** (see 9.6)'} |")
print(f"\n{c} of {n} breaking changes caught; {qb} of {nb} benign refactorings leave the checks quiet.")
