#!/venv/bin/python
import json, sys
for f in sys.argv[1:]:
    d = json.load(open(f))
    v = d["violation"]
    print("==", f); print("  ", v["kind"], "|", v["key"]); print("  ", v["message"][:900])
    dec = d["decoded"] or {}
    for k in ("suite", "workers", "faults", "policy", "traced", "fired", "run_raised", "scripts", "fault_plan", "faults_fired"):
        if k in dec: print("   %s: %s" % (k, json.dumps(dec[k])[:700]))
    for k in ("caller_log", "target_log"):
        if k in dec:
            for e in dec[k][:60]: print("      ", e)
