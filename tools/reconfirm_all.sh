#!/bin/bash
# Re-confirm every seeded change against the current /repo: patch applies, suite unaffected, demonstration
# behaves (fails for breaking changes, passes for benign ones), then run the named check(s) against the
# patched copy.  usage: tools/reconfirm_all.sh [parallelism] [id prefix regex, e.g. "C14|C18"]   (results: seeded/<id>/meta.json, log under /var/tmp/vt)
cd "$(dirname "$0")/.."
P=${1:-4}
F=${2:-.}
S=/var/tmp/vt/final; rm -rf $S; mkdir -p $S
for d in seeded/*/; do
  n=$(basename $d); [ -f $d/meta.json ] || continue
  echo $n | grep -Eq "^($F)" || continue
  /venv/bin/python -c "import json,sys;sys.exit(0 if json.load(open('$d/meta.json')).get('obsolete') else 1)" && continue
  mkdir -p $S/$n; cp $d/patch.diff $d/demo.py $d/meta.json $S/$n/
  extra=$(/venv/bin/python -c "import json;m=json.load(open('$d/meta.json'));print(' '.join(c for c in m.get('checks',[])[1:]))")
  echo "$S/$n $n $extra" | sed "s/ *$//"
done | xargs -P $P -L 1 sh -c 'tools/confirm_seeded.py "$@" > /var/tmp/vt/final_$2.log 2>&1' sh
for f in /var/tmp/vt/final_*.log; do n=$(basename $f .log | sed s/final_//); echo "$n kept=$(grep -c '"kept": true' $f) $(grep "^C[0-9][0-9] {" $f | tr '\n' ' ' | cut -c1-220)"; done
