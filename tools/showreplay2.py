#!/venv/bin/python
import json, sys
for f in sys.argv[1:]:
    d = json.load(open(f))
    v = d["violation"]
    print("==", f); print("  ", v["kind"], "|", v["key"]); print("  ", v["message"][:1200])
    print(json.dumps(d["decoded"], default=repr)[:3000])
