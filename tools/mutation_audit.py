#!/venv/bin/python
"""Sensitivity / false-alarm audit on scratch copies of /repo.

For each mutant in tools/mutants.py: copy /repo's working tree (without .git) to a scratch
directory outside /repo and /verif, apply the textual edit, run the pinned suite on the copy
(mutants the suite kills are reported as such and do not count), run the matching check(s)
with VERIF_REPO=<copy>, expect exit 1 + VIOLATION for "break" mutants and exit 0 for
"benign" ones, delete the copy.

usage: tools/mutation_audit.py [--only ID[,ID]] [--prop C12] [--runs N] [--par 4] [--seeded]
Results: tools/mutation_results.json (committed by hand when it is worth keeping).
"""
import argparse
import concurrent.futures as cf
import json
import os
import shutil
import subprocess
import sys
import tempfile
import time

HERE = os.path.dirname(os.path.abspath(__file__))
VERIF = os.path.dirname(HERE)
SCRATCH = os.environ.get("VERIF_SCRATCH", "/var/tmp/vt")


def load_catalogue():
    sys.path.insert(0, HERE)
    import mutants
    return mutants.MUTANTS


def seeded_catalogue():
    out = []
    root = os.path.join(VERIF, "seeded")
    for d in sorted(os.listdir(root)) if os.path.isdir(root) else []:
        meta = os.path.join(root, d, "meta.json")
        if os.path.exists(meta):
            m = json.load(open(meta))
            if m.get("obsolete"):
                continue      # made impossible by a later repair of /repo (the reason is in meta.json)
            out.append({"id": "seeded/" + d, "props": m["checks"] if "checks" in m else [m["property"]],
                        "patch": os.path.join(root, d, "patch.diff"), "expect": "benign" if m.get("benign") else "break"})
    return out


def apply_mutant(copy, m):
    if "patch" in m:
        p = subprocess.run(["git", "apply", "--unsafe-paths", "--directory=" + copy, m["patch"]], capture_output=True, text=True, cwd="/")
        if p.returncode != 0:
            p = subprocess.run(["patch", "-p1", "-d", copy, "-i", m["patch"]], capture_output=True, text=True)
            if p.returncode != 0:
                return "patch failed: " + p.stdout + p.stderr
        return None
    for edit in m["edits"]:
        path = os.path.join(copy, edit["file"])
        s = open(path).read()
        if s.count(edit["old"]) != 1:
            return f"edit anchor found {s.count(edit['old'])} times in {edit['file']}"
        open(path, "w").write(s.replace(edit["old"], edit["new"]))
    return None


def run_mutant(m, runs, jobs, skip_suite):
    os.makedirs(SCRATCH, exist_ok=True)
    copy = tempfile.mkdtemp(prefix="mut_", dir=SCRATCH)
    res = {"id": m["id"], "expect": m["expect"], "props": m["props"]}
    try:
        subprocess.run(["rsync", "-a", "--exclude", ".git", "--exclude", "__pycache__", "/repo/", copy + "/"], check=True)
        err = apply_mutant(copy, m)
        if err:
            res["status"] = "apply-error"
            res["detail"] = err
            return res
        if not skip_suite:
            p = subprocess.run([os.path.join(HERE, "suite.sh"), copy], capture_output=True, text=True)
            res["suite_ok"] = p.returncode == 0
            if p.returncode != 0:
                res["status"] = "killed-by-suite"
                res["detail"] = p.stdout[-600:]
                return res
        res["checks"] = {}
        caught = False
        for prop in m["props"]:
            env = dict(os.environ, VERIF_REPO=copy, VERIF_REPLAY_DIR=os.path.join(copy, "_replays"))
            cmd = [os.path.join(VERIF, "check"), prop, "--no-evidence", "--jobs", str(jobs)]
            if runs:
                cmd += ["--runs", str(runs)]
            t0 = time.time()
            p = subprocess.run(cmd, capture_output=True, text=True, env=env)
            viol = [l for l in p.stdout.splitlines() if l.startswith("VIOLATION")]
            kinds = []
            for l in viol:
                path = l.split("replay=")[1]
                try:
                    v = json.load(open(path))["violation"]
                    kinds.append(f"{v['kind']}:{v['key']}")
                    os.remove(path)
                except Exception:
                    pass
            res["checks"][prop] = {"exit": p.returncode, "violations": sorted(set(kinds)), "wall": round(time.time() - t0, 1),
                                   "tail": (p.stdout + p.stderr)[-300:] if p.returncode == 2 else ""}
            if p.returncode == 1:
                caught = True
        if m["expect"] == "break":
            res["status"] = "caught" if caught else "MISSED"
        else:
            res["status"] = "FALSE-ALARM" if caught else "quiet"
        if any(c["exit"] == 2 for c in res["checks"].values()):
            res["status"] += "+harness-error"
        return res
    finally:
        shutil.rmtree(copy, ignore_errors=True)


def main():
    ap = argparse.ArgumentParser()
    ap.add_argument("--only")
    ap.add_argument("--prop")
    ap.add_argument("--runs", type=int, default=0)
    ap.add_argument("--par", type=int, default=4)
    ap.add_argument("--jobs", type=int, default=4)
    ap.add_argument("--seeded", action="store_true")
    ap.add_argument("--skip-suite", action="store_true")
    args = ap.parse_args()
    cat = seeded_catalogue() if args.seeded else load_catalogue()
    if args.only:
        want = set(args.only.split(","))
        cat = [m for m in cat if m["id"] in want]
    if args.prop:
        cat = [m for m in cat if args.prop in m["props"]]
    results = []
    with cf.ThreadPoolExecutor(max_workers=args.par) as ex:
        futs = [ex.submit(run_mutant, m, args.runs, args.jobs, args.skip_suite) for m in cat]
        for f in cf.as_completed(futs):
            r = f.result()
            results.append(r)
            print(f"{r['status']:>18}  {r['id']:<44} {json.dumps(r.get('checks', r.get('detail', '')))[:200]}", flush=True)
    results.sort(key=lambda r: r["id"])
    out = os.path.join(HERE, "mutation_results_seeded.json" if args.seeded else
                       "mutation_results_nosuite.json" if args.skip_suite else "mutation_results.json")
    old = {}
    if os.path.exists(out) and (args.only or args.prop):
        old = {r["id"]: r for r in json.load(open(out))["results"]}
    for r in results:
        old[r["id"]] = r
    json.dump({"results": sorted(old.values(), key=lambda r: r["id"])}, open(out, "w"), indent=1)
    bad = [r for r in results if r["status"].startswith(("MISSED", "FALSE-ALARM")) or "harness" in r["status"] or r["status"] == "apply-error"]
    print(f"{len(results)} mutants: {sum(r['status'].startswith('caught') for r in results)} caught, "
          f"{sum(r['status'].startswith('quiet') for r in results)} quiet, "
          f"{sum(r['status'] == 'killed-by-suite' for r in results)} killed by suite, {len(bad)} need attention")
    return 1 if bad else 0


if __name__ == "__main__":
    sys.exit(main())
