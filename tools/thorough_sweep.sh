#!/bin/bash
# Every registered thorough command once (VERIF_SEED as given, default 20260927).  Stops at the first
# VIOLATION / harness error.  usage: tools/thorough_sweep.sh [jobs] [check ids in the order wanted ...]
cd "$(dirname "$0")/.."
# under `vp run --with-repo` the snapshot of /repo is the tree to check
[ -n "$VP_RUN_REPO" ] && export VERIF_REPO="$VP_RUN_REPO"
JOBS=${1:-16}
shift
LIST=${@:-C06 C05 C03 C13 C12 C15 C01 C02 C10 C09 C20 C14 C04 C08 C17 C18 C11 C16 C07}
for c in $LIST; do
  t0=$(date +%s)
  out=$(VERIF_REPLAY_DIR=$PWD/thorough_replays ./check $c --tier thorough --jobs $JOBS 2>&1 | grep -v "^KNOWN-FINDING" | tail -4)
  echo "$(date +%H:%M) $(( $(date +%s) - t0 ))s $(echo "$out" | tail -1)"
  if echo "$out" | grep -q "VIOLATION\|HARNESS-ERROR\|harness error"; then echo "$out"; echo "THOROUGH-STOPPED at $c"; exit 1; fi
done
echo THOROUGH-CLEAN
