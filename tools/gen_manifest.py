#!/venv/bin/python
"""Write /verif/MANIFEST.json from the table below (keeps it valid by construction)."""
import json, os, sys
HERE = os.path.dirname(os.path.dirname(os.path.abspath(__file__)))

BASELINE_OFF = ("cd /repo && /venv/bin/python -m pytest -ra -q -p no:cacheprovider --timeout=900 "
                "--continue-on-collection-errors --junitxml=/tmp/verif_baseline_off.junit.xml")

ENGINES = [
    ("simkit-lifecycle", "simkit/lifecycle.py", ["C01", "C02", "C03", "C05", "C07"],
     "framework code (TestCase.run/RunTest) driving scripted user stages under a seeded fault plan; reference interpreter as oracle"),
    ("simkit-threads", "simkit/sched.py", ["C12", "C13", "C04", "C17"],
     "baton-passing real threads: seeded scheduler decides every interleaving at semaphore/queue/thread/target-call yield points (+ sys.settrace line pre-emption), deadlock detector, virtual clock"),
    ("simkit-reactor", "simkit/reactor.py", ["C14", "C15", "C20"],
     "virtual-time Twisted reactor (ReactorBase subclass), external-event queue for signals/stop, controlled GC"),
    ("simkit-pipeline", "simkit/pipeline.py", ["C04", "C08", "C09", "C10", "C11", "C17", "C18"],
     "reporter -> adapters/decorators/routers -> recording sinks, several simulated workers interleaved by the scheduler, virtual clock"),
    ("simkit-io", "simkit/simio.py", ["C16"], "simulated stream/file: short reads, EOF, later mutation, read log"),
    ("simkit-hashorder", "checks/c06_setwise.py", ["C06"], "simulator-assigned __hash__ makes set iteration order a seeded decision"),
]

# id -> (module exists?, technique, level text, level note, design ref)
CHECKS = {
 "C01": ("deterministic simulation: seeded search over scripted test programs x fault plans (exceptions incl. KeyboardInterrupt/SystemExit at any stage) x result flavours, history checked against a reference model",
         "seeded exploration of test programs and fault plans; every run's result-object event log must be startTest, one outcome, stopTest, and a non-Exception must be reported as error, not stop later stages, and propagate",
         "user code is scripted; result objects never raise; sampling, not proof", "3/C01"),
 "C02": ("deterministic simulation: seeded search over programs x fault plans x histories of repeated run(); execution log compared with a reference interpreter",
         "seeded exploration; executed-operation log must equal the reference interpreter's (stage order, every cleanup once, LIFO), no cleanup left, patched attributes restored, re-run identical",
         "programs always upcall; sampling, not proof", "3/C02"),
 "C03": ("deterministic simulation: seeded search over ordered pairs/triples of (exception kind, stage) incl. user handlers; outcome checked against a model of the handler table",
         "seeded exploration; success iff nothing raised/forced, single exception maps by handler order, failure/error never downgraded by a later skip/xfail",
         "which of several failing exceptions is reported is not constrained; user-class exceptions are not ranked; sampling, not proof", "3/C03"),
 "C05": ("deterministic simulation: seeded search over programs attaching lazy details under colliding names, mutating sources, fixtures, mismatches, MultipleExceptions; delivered bytes checked at the outcome call",
         "seeded exploration; every user detail under its name with reporting-time bytes, every mismatch/fixture payload present (renamed allowed), one traceback per failure/error, handlers once per exception before the outcome",
         "a user addDetail over a generated name is the user's own overwrite; sampling, not proof", "3/C05"),
 "C07": ("deterministic simulation (run-time facet only): scripted matchers/mismatches inside faulty test runs; assertThat/expectThat behaviour checked against the reference model",
         "seeded exploration of the run-time facet: assertThat/assert_that raise iff mismatch, expectThat never raises yet the finished test fails, mismatch details survive under non-clobbering names",
         "NARROW SCOPE: str()/describe()/get_details()/str(MismatchError)/text_repr of stock matchers are pure functions of their input - not a simulation target, not decided (DESIGN section 4)", "3/C07"),
 "C12": ("deterministic simulation: baton-passed threads under a seeded scheduler (random walk / PCT bounded pre-emption / sticky, yield points at semaphore ops and target calls, line-level pre-emption in traced runs) + target fault plans; event log checked for per-call contiguity and block shape",
         "seeded exploration of interleavings and target faults: every forwarder call's target events are contiguous, blocks have the right shape/order/start time/tags, the semaphore is free afterwards, no schedule deadlocks",
         "pre-emption granularity: synchronisation points, target calls, source lines of real.py in traced runs; after a fired fault tag contents are not compared; sampling (PCT bounded-pre-emption sampling, not exhaustive enumeration)", "3/C12"),
 "C13": ("deterministic simulation: the real Concurrent(Stream)TestSuite.run on a simulated main thread with Thread/Semaphore/Queue rebound to simulator objects; seeded schedules + fault plans (result raises, make_tests/wrap_result raise, KeyboardInterrupt inside get/join/start, crashing runners); optional fault-free second run on the same suite object; deadlock detector and step cap",
         "seeded exploration: each sub-suite run once on its own thread, all joined before return, every event delivered once in worker order with route code and timestamp, broken-runner reported, abort propagates and running workers are told to stop (and the stop is still readable once all threads have finished), a second run() on the same suite object is unaffected by the first, no deadlock",
         "workers honour shouldStop; route codes are strings; 'told to stop' is read when run() unwinds and again after all threads have finished; sampling, not proof", "3/C13"),
 "C14": ("deterministic simulation: AsynchronousDeferredRunTest over a virtual-time Twisted reactor (real ReactorBase scheduling, seconds/doIteration replaced); scripted Deferred-returning stages; timeouts and delays from a tie-prone grid; SIGINT/reactor.stop injected at seeded virtual instants; timeline model as oracle",
         "seeded exploration: one outcome per run, stage n+1 starts no earlier than stage n completed, success iff the model timeline is clean, strict timeout/interrupt => error (+stop), reactor clean and log observers restored after every run",
         "tie runs are checked against global invariants only; real reactor not covered; sampling, not proof; one known finding (tearDown and cleanups are skipped after a timeout or interrupt, so an observer installed by the test stays: known_findings.json, DESIGN 9.2)", "3/C14"),
 "C15": ("deterministic simulation: histories of Spinner.run calls over one virtual-time reactor; pre-installed signal handlers, SIGINT/SIGTERM/stop events at seeded instants incl. ties; result-set model as oracle",
         "seeded exploration: each call returns its own result (value / same exception / TimeoutError / NoResultError, a set at ties), guards raise, reactor clean, leftovers reported as junk and nothing else, reactor.stop and the three signal handlers restored",
         "real global reactor not covered (wall-clock timing does not replay); a SIGINT is a stop request only with default_int_handler pre-installed; sampling, not proof", "3/C15"),
 "C06": ("deterministic simulation of the one nondeterminism source in this property: matcher objects get a seeded __hash__, so the iteration order of MatchesSetwise's internal set is a simulator decision; verdict compared across hash assignments and with an independent bipartite-matching model",
         "seeded exploration of the iteration-order facet: for every (matchers, observed) explored, the verdict is identical under all explored hash assignments and equals 'a one-to-one assignment exists'; operands unchanged",
         "NARROW SCOPE: only MatchesSetwise's hash/iteration-order determinism is decided. match() of every stock matcher and the truth-functional laws of the other combinators are pure functions of (expression, value) with no schedule, clock, fault or interleaving: not a simulation target, NOT decided by this check (DESIGN section 4)", "3/C06"),
 "C16": ("deterministic simulation of the reader seam: simulated stream/file with seeded short reads, EOF positions, seek origins and later mutation of the source (testtools.content.open rebound); seeded fragmentation of byte strings into chunks; read log checked for laziness",
         "seeded exploration of the stream/chunking/snapshot facets: bytes from the requested offset to EOF, non-empty chunks <= chunk_size, lazy unless buffer_now, as_text independent of the cut, == is type+bytes, gathered details are snapshots",
         "NARROW SCOPE: text_content/json_content construction and the ContentType<->MIME-string inverse are pure functions of their input and only exercised as workload; sampling, not proof", "3/C16"),
 "C20": ("deterministic simulation: seeded histories of fire / fail / add-callback / match / extract operations on one Deferred with garbage collection under simulator control and a recording Twisted log observer; plus scripted tests under SynchronousDeferredRunTest compared with the plain runner",
         "seeded exploration: exactly one classifier matches per state, inner matcher handed the exact value/Failure, extract_result returns/raises, matching never fires, later callbacks see the original value, inspected failures are not logged at collection, sync runner equals direct return/raise",
         "after a failure was inspected or extract_result was used the Deferred's later result is not compared; sampling, not proof", "3/C20"),
 "C08": ("deterministic simulation of the reporting pipeline: a scripted reporter (seeded well-formed history of TestResult calls, TestCase/PlaceHolder/ErrorHolder subjects) drives seeded stacks of adapters over recording targets of every protocol flavour; virtual clock; degradation table as data in the model",
         "seeded exploration: every startTest/outcome/stopTest reaches each terminal once and in order with the documented degradation, detail text survives conversion, failing never becomes passing, TestByTestResult calls back once per test at stopTest with that test's times/tags/details/status",
         "TestResultDecorator/Tagger only over results that accept details=; progress() not issued; sampling, not proof", "3/C08"),
 "C10": ("deterministic simulation: 1..4 simulated workers emit scripted status events; a seeded scheduler interleaves them into one stream and cuts the run with stopTestRun at a seeded point (crash analogue); the same stream feeds all three consumers; dict-of-records reference model",
         "seeded exploration: every (test id, route code) reported exactly once at its final status or at stop, with last status, latest tags, first/last timestamps, chunks in arrival order; StreamSummary counters/lists/verdict agree",
         "events after a final may be discarded or start a new test (both accepted); flush order unspecified; sampling, not proof", "3/C10"),
 "C11": ("deterministic simulation: seeded trees of stream decorators (incl. StreamToQueue whose queue is drained at seeded points) over recording sinks, virtual clock for TimestampingStreamResult; each decorator modelled as a pure function on the event",
         "seeded exploration: each sink receives exactly the model's calls in order, only the owned field altered, supplied timestamps untouched, missing ones filled from the virtual clock, failure callback only for fail/uxsuccess, caller's tag objects never mutated",
         "sinks are well-behaved (aliasing observed through decorators' own writes); None and empty tag sets are equivalent; sampling, not proof", "3/C11"),
 "C17": ("deterministic simulation of the reporting pipeline: seeded histories of tags/startTest/outcome/stopTest/startTestRun (incl. the startTest-less skip pair) into every TestResult implementation and adapter stack; two-set tag model as oracle, observed tags read at the recording targets / final stream events",
         "seeded exploration: current_tags equals the model after every call; the tags a wrapped target or stream consumer sees at each outcome equal the reporter's current tags (plus a Tagger's own change below it)",
         "new/gone disjoint; single reporter thread (interleavings of several reporters are C12); sampling, not proof", "3/C17"),
 "C18": ("deterministic simulation: seeded histories of add_rule / startTestRun / stopTestRun / status on one StreamResultRouter, events optionally sent through an upstream StreamToQueue whose queue is drained into the router; 10-line routing function as model",
         "seeded exploration: every event lands in exactly the sink the model names (or raises and lands nowhere), other fields unchanged, consuming rules strip exactly one segment (push/pop inverse), start/stop reach exactly the registered sinks once per run and immediately for rules added mid-run",
         "one rule per prefix/test id (ambiguous rules are documented as undefined); sampling, not proof", "3/C18"),
 "C04": ("deterministic simulation of the reporting pipeline and of test dispatch: scripted histories through seeded adapter stacks over TestResult/TextTestResult, real unittest.TestSuite runs of scripted TestCases/PlaceHolders with failfast set before/after wrapping and stop() injected from inside a test, and testtools.run executed in-process; virtual clock; one-boolean verdict model",
         "seeded exploration: wasSuccessful() on every testtools-owned layer equals 'no bad outcome since startTestRun' after every call, TextTestResult's count/verdict/failure total/sections and testtools.run's exit status agree, with failfast no test is dispatched after the first bad outcome and all before it are, stop() on any layer is visible through every layer above the stopped results",
         "failfast clauses only for runs of real TestCases/PlaceHolders; single reporter thread; sampling, not proof", "3/C04"),
 "C09": ("deterministic simulation of the conversion pipeline: scripted reporter -> ExtendedToStreamDecorator -> (recording tap) -> StreamToExtendedDecorator -> recording target, virtual clock for unsupplied times, seeded detail payloads (chunking, empty chunks, content types with parameters)",
         "seeded exploration: the tap stream is well formed (inprogress, file events in chunk order, eof exactly on each detail's last chunk, one final status) and the final target sees one bracket per test with the same id, outcome, tags, times, skip reason and every non-empty detail (bytes and ContentType)",
         "content-type parameters from the safe MIME domain only; all-empty details need not survive; sampling, not proof", "3/C09"),
}

NOT_APPLICABLE = [
 ("C19", "iterate_tests, filter_by_ids, sorted_tests and --list/--load-list are pure functions of a suite tree and an id set: no schedule, clock, fault, I/O timing or second party for a simulator to control; input generation alone would be property-based testing, not deterministic simulation (DESIGN section 4)"),
]

PENDING = {}  # id -> reason, for properties whose check is not built yet


def main():
    mods = {}
    sys.path.insert(0, HERE)
    import re
    src = open(os.path.join(HERE, "check")).read()
    for m in re.finditer(r'"(C\d+)": "checks\.(\w+)"', src):
        mods[m.group(1)] = m.group(2)
    checks = []
    for cid in sorted(CHECKS):
        technique, text, note, ref = CHECKS[cid]
        if not os.path.exists(os.path.join(HERE, "checks", mods[cid] + ".py")):
            continue
        engine = next(e[0] for e in ENGINES if cid in e[2])
        checks.append({
            "property_id": cid,
            "quick_cmd": f"./check {cid} --tier quick",
            "thorough_cmd": f"./check {cid} --tier thorough",
            "evidence_file": f"/verif/evidence/{cid}.json",
            "replay_cmd_template": f"./check {cid} --replay {{path}}",
            "engine": engine,
            "level_claimed": {"category": "exploration", "text": text, "design_ref": "DESIGN.md section " + ref},
            "level_note": note,
            "technique": technique,
        })
    claimed = {c["property_id"] for c in checks}
    na = [{"property_id": p, "reason": r} for p, r in NOT_APPLICABLE]
    for cid in [f"C{i:02d}" for i in range(1, 21)]:
        if cid not in claimed and cid not in {p for p, _ in NOT_APPLICABLE}:
            na.append({"property_id": cid, "reason": PENDING.get(cid, "check not built yet in this round (planned in DESIGN.md section 3); not claimed until it exists")})
    man = {
        "version": 1,
        "setup_cmd": "/venv/bin/python -c \"import twisted, fixtures, testtools; print('ok')\"",
        "hooks": {
            "guard": "TESTTOOLS_VERIF",
            "enable": "no source hook exists in /repo: every seam is a module global or a constructor argument rebound from /verif; ./check exports TESTTOOLS_VERIF=1 for uniformity",
            "baseline_off_cmd": BASELINE_OFF,
            "source_commits": [],
            "add_only": True,
        },
        "engines": [{"name": n, "path": p, "serves_properties": s, "kind_free_text": k} for n, p, s, k in ENGINES
                    if os.path.exists(os.path.join(HERE, p))],
        "checks": checks,
        "not_applicable": na,
        "notes": "Family: deterministic simulation with fault injection. One integer (VERIF_SEED) decides every program, fault plan and schedule; violations are shrunk and written to replays/<id>/<hash>.json; ./check <id> --replay <file> reproduces them in a fresh process. Exit 0 held / 1 VIOLATION / 2 harness error. Genuine defects found in /repo are listed in /verif/known_findings.json: status fixed = repaired by a 'fix:' commit (suppresses nothing), status known = recorded, not repaired (one defect of the asynchronous runner, three violation identities of C14: printed as KNOWN-FINDING lines, exit 0).",
    }
    with open(os.path.join(HERE, "MANIFEST.json"), "w") as f:
        json.dump(man, f, indent=1)
    print("wrote MANIFEST.json:", len(checks), "checks,", len(na), "not_applicable")


if __name__ == "__main__":
    main()
