#!/bin/bash
# Soak: every check, several VERIF_SEED values, a multiple of the quick budget.  Stops at the first
# non-zero exit (a VIOLATION on the unchanged tree is either a genuine defect or a false alarm: both
# need attention).  usage: tools/soak.sh [rounds] [jobs] [seed base]
cd "$(dirname "$0")/.."
# under `vp run --with-repo` the snapshot of /repo is the tree to check
[ -n "$VP_RUN_REPO" ] && export VERIF_REPO="$VP_RUN_REPO"
ROUNDS=${1:-6}; JOBS=${2:-8}; BASE=${3:-7}
for r in $(seq 1 $ROUNDS); do
  for c in C01 C02 C03 C04 C05 C06 C07 C08 C09 C10 C11 C12 C13 C14 C15 C16 C17 C18 C20; do
    seed=$((1000 * r + BASE))
    out=$(VERIF_SEED=$seed VERIF_REPLAY_DIR=$PWD/soak_replays ./check $c --tier quick --no-evidence --jobs $JOBS 2>&1 | tail -4)
    rc=$?
    echo "round=$r seed=$seed $(echo "$out" | tail -1)"
    if echo "$out" | grep -q "VIOLATION\|HARNESS-ERROR"; then echo "$out"; echo "SOAK-STOPPED at $c seed $seed"; exit 1; fi
  done
done
echo SOAK-CLEAN
