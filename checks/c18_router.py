"""C18 -- StreamResultRouter hands every status event to exactly one sink (route-prefix rule,
else test-id rule, else fallback, raising when there is none) with all other fields
unchanged; a consuming rule strips exactly the leading segment, so StreamToQueue(code) then a
consuming rule for code restores the original route code; startTestRun/stopTestRun reach
exactly the sinks registered for them, once per run, immediately for a rule added mid-run."""

from testtools.testresult.real import StreamResultRouter, StreamToQueue

from simkit.driver import Outcome
from simkit.targets import World, TStream
from simkit.tape import digest_of

ID = "C18"
RUNS = {"quick": 1_000_000, "thorough": 5_000_000}
SIM_TIME_UNIT = "router calls"
RULE = (
    "each run = a history of 3..14 operations on one StreamResultRouter: add_rule (route_code_prefix over a 3-segment "
    "alphabet with consume on/off, test_id incl. None; do_start_stop_run on/off; at most one rule per prefix / id, as "
    "ambiguous rules are undefined), startTestRun / stopTestRun (1..2 well-nested runs), and status events whose route "
    "code is None or 1..4 segments, sent directly or through an upstream StreamToQueue(code) whose queue is drained "
    "into the router (the push/pop pair); with or without fallback and fallback do_start_stop_run; distinct = digest of "
    "the op-kind sequence with rule shapes and route-code shapes; non-trivial = >=1 rule and >=1 event with a route code"
)
REAL_STUB = {
    "real": ["StreamResultRouter (status, add_rule, policies, start/stop handling)", "StreamToQueue.route_code"],
    "stub": ["sinks and fallback (recording)", "queue + drain (list)"],
}
ASSUMPTIONS = [
    "no two rules for the same prefix or the same test id (the class documents ambiguous rules as undefined)",
    "route prefixes contain no '/' (the documented TypeError path is a different contract)",
]

SEGS = ("0", "1", "a", "ab")
IDS = (None, "x", "y")


def gen(tape, big=False):
    fallback = tape.chance("config", 2, 3, "fallback")
    fb_ss = tape.chance("config", 1, 2, "fallback-startstop")
    ops = []
    used_p, used_i = set(), set()
    in_run, runs = False, 0
    reentrant = 0
    n = 3 + tape.draw("program", 24 if big else 12, "n-ops")
    for _ in range(n):
        k = tape.weighted("program", [(10, "event"), (4, "add_prefix"), (4, "add_id"), (4, "run"), (1, "bad_rule"), (1, "add_reentrant")], "op")
        if k == "add_reentrant":
            # a sink registered for start/stop that, the first time the router starts (or stops) it, adds one more rule
            free = [s for s in SEGS if s not in used_p]
            if not free or reentrant >= 2:
                continue
            p = free[tape.draw("program", len(free), "child-prefix")]
            used_p.add(p)
            reentrant += 1
            ops.append(["add_reentrant", tape.choice("program", ("start", "stop"), "when"), p,
                        tape.chance("program", 1, 2, "child-consume"), tape.chance("program", 2, 3, "child-startstop")])
            continue
        if k == "bad_rule":
            ops.append(["bad_rule", tape.choice("program", ("slash-in-prefix", "unknown-policy", "wrong-keyword"), "how"),
                        tape.chance("program", 1, 2, "startstop")])
            continue
        if k == "add_prefix":
            free = [s for s in SEGS if s not in used_p]
            if not free:
                continue
            p = free[tape.draw("program", len(free), "prefix")]
            used_p.add(p)
            ops.append(["add_prefix", p, tape.chance("program", 1, 2, "consume"), tape.chance("program", 1, 2, "startstop"),
                        tape.draw("program", 5, "reuse-sink")])     # 0 = a sink of its own, k = share the k-th sink already there
        elif k == "add_id":
            free = [i for i in IDS if i not in used_i]
            if not free:
                continue
            i = free[tape.draw("program", len(free), "id")]
            used_i.add(i)
            ops.append(["add_id", i, tape.chance("program", 1, 2, "startstop"), tape.draw("program", 5, "reuse-sink")])
        elif k == "run":
            if in_run:
                ops.append(["stop"])
                in_run = False
            elif runs < 2:
                ops.append(["start"])
                in_run = True
                runs += 1
        else:
            nseg = tape.draw("program", 5, "route-segments")
            rc = "/".join(tape.choice("program", SEGS, "seg") for _ in range(nseg)) if nseg else None
            ev = {"test_id": tape.choice("program", IDS, "test-id"), "route_code": rc,
                  "test_status": tape.choice("program", (None, "inprogress", "success", "fail"), "status")}
            if tape.chance("program", 1, 3, "file"):
                ev.update(file_name="f", file_bytes=b"data", eof=True, mime_type="text/plain")
            if tape.chance("program", 1, 3, "tags"):
                ev["test_tags"] = ["t"]
            via = None
            if tape.chance("program", 1, 3, "via-queue"):
                via = tape.choice("program", SEGS, "queue-code")
            ops.append(["event", ev, via])
    if in_run and tape.chance("program", 2, 3, "final-stop"):
        ops.append(["stop"])
    return fallback, fb_ss, ops


def run_one(tape, opts):
    out = Outcome()
    fallback, fb_ss, ops = gen(tape, big=opts.get("tier") == "thorough")
    world = World()
    falsy_sinks = tape.chance("config", 1, 6, "falsy-sinks")
    equal_sinks = tape.chance("config", 1, 6, "equal-sinks")
    fb = TStream(world, "fallback") if fallback else None
    if fb is not None:
        fb._falsy = falsy_sinks
        fb._equal_all = equal_sinks
    router = StreamResultRouter(fb, do_start_stop_run=fb_ss)
    sinks = {}
    # model state
    prefix_rules, id_rules = {}, {}
    startstop = ["fallback"] if (fallback and fb_ss) else []
    in_run = False
    expect = {}   # sink name -> list of expected calls
    if fallback:
        expect["fallback"] = []

    def sink(name):
        s = TStream(world, name)
        s._falsy = falsy_sinks      # a sink may be falsy (an empty sized collector): it is a sink all the same
        s._equal_all = equal_sinks  # ... or compare equal to another one (value equality): two sinks all the same
        sinks[name] = s
        expect[name] = []
        return s

    def pick(name, reuse):
        """A sink of its own, or (reuse = k) the k-th shareable sink already known to the router."""
        shareable = (["fallback"] if fallback else []) + [n for n in sinks if n.startswith(("prefix:", "id:"))]
        if reuse and reuse <= len(shareable):
            n = shareable[reuse - 1]
            out.probe("sink-serves-two-rules")
            return n, (fb if n == "fallback" else sinks[n])
        return name, sink(name)

    pending_children = {}   # parent sink name -> (when, child name, prefix, consume, registered for start/stop)
    either = {}             # child added while the router was stopping its sinks: name -> index into expect[name]

    def _install_child(pname, already_started):
        when, cname, p, consume, css = pending_children.pop(pname)
        prefix_rules[p] = (cname, consume)
        if css:
            if already_started is None:
                # added from inside stopTestRun: whether that still counts as "while a run is in progress" the
                # statement leaves open - either nothing for this run, or start and stop, but never half of it
                either[cname] = len(expect[cname])
            elif already_started:
                expect[cname].append(("startTestRun",))
            startstop.append(cname)

    nev = 0
    for op in ops:
        try:
            if op[0] == "add_prefix":
                _, p, consume, ss, reuse = op
                name, snk = pick(f"prefix:{p}", reuse)
                router.add_rule(snk, "route_code_prefix", route_prefix=p, consume_route=consume, do_start_stop_run=ss)
                prefix_rules[p] = (name, consume)
                # (a sink that serves two rules, or the fallback doubling as a rule's sink, is still one sink:
                # started and stopped once per run)
                if ss and name not in startstop:
                    startstop.append(name)
                    if in_run:
                        expect[name].append(("startTestRun",))
            elif op[0] == "add_id":
                _, i, ss, reuse = op
                name, snk = pick(f"id:{i}", reuse)
                router.add_rule(snk, "test_id", test_id=i, do_start_stop_run=ss)
                id_rules[i] = name
                if ss and name not in startstop:
                    startstop.append(name)
                    if in_run:
                        expect[name].append(("startTestRun",))
            elif op[0] == "add_reentrant":
                _, when, p, consume, css = op
                pname, cname = f"parent#{len(sinks)}", f"child:{p}"
                parent = _Reentrant(sink(pname), when, None)
                child = sink(cname)

                def action(child=child, p=p, consume=consume, css=css):
                    router.add_rule(child, "route_code_prefix", route_prefix=p, consume_route=consume, do_start_stop_run=css)

                parent.action = action
                # (a test id no event carries: the parent only takes part in start/stop)
                router.add_rule(parent, "test_id", test_id=pname, do_start_stop_run=True)
                startstop.append(pname)
                pending_children[pname] = (when, cname, p, consume, css)
                if in_run:
                    expect[pname].append(("startTestRun",))
                    if when == "start":
                        _install_child(pname, True)
                out.probe("reentrant-add_rule:" + when)
            elif op[0] == "bad_rule":
                # a rule the router rejects registers nothing at all
                name = f"rejected#{len(sinks)}"
                snk = sink(name)
                try:
                    if op[1] == "slash-in-prefix":
                        router.add_rule(snk, "route_code_prefix", route_prefix="0/1", consume_route=True, do_start_stop_run=op[2])
                    elif op[1] == "unknown-policy":
                        router.add_rule(snk, "no_such_policy", do_start_stop_run=op[2])
                    else:
                        router.add_rule(snk, "test_id", test_identifier="x", do_start_stop_run=op[2])
                    out.violate("misrouted", "bad-rule-accepted", f"op {op} was not rejected")
                except (TypeError, ValueError):
                    out.probe("rejected-rule")
            elif op[0] == "start":
                router.startTestRun()
                in_run = True
                # (the list may grow while it is walked: a sink started here may add a rule registered
                # for start/stop, which then belongs to this run like any other)
                for name in startstop:
                    expect[name].append(("startTestRun",))
                    if name in pending_children and pending_children[name][0] == "start":
                        _install_child(name, False)
            elif op[0] == "stop":
                router.stopTestRun()
                in_run = False
                for name in list(startstop):
                    expect[name].append(("stopTestRun",))
                    if name in pending_children and pending_children[name][0] == "stop":
                        _install_child(name, None)
            else:
                _, ev, via = op
                nev += 1
                kw = dict(ev)
                if kw.get("test_tags") is not None:
                    kw["test_tags"] = set(kw["test_tags"])
                rc = kw.get("route_code")
                eff = rc
                if via is not None:
                    eff = via if rc is None else via + "/" + rc
                # model
                first = eff.split("/")[0] if eff is not None else None
                arrive = eff
                if first is not None and first in prefix_rules:
                    dest, consume = prefix_rules[first]
                    if consume:
                        arrive = eff[len(first) + 1:] or None
                elif kw.get("test_id") in id_rules:
                    dest = id_rules[kw.get("test_id")]
                elif fallback:
                    dest = "fallback"
                else:
                    dest = None
                fields = dict(kw)
                fields["route_code"] = arrive
                if fields.get("test_tags") is not None:
                    fields["test_tags"] = frozenset(fields["test_tags"])
                raised = None
                try:
                    if via is not None:
                        q = _Q()
                        StreamToQueue(q, via).status(**kw)
                        item = dict(q.items[0])
                        item.pop("event")
                        router.status(**item)
                    else:
                        router.status(**kw)
                except Exception as e:   # noqa
                    raised = e
                if dest is None:
                    if raised is None:
                        out.violate("misrouted", "no-destination-did-not-raise", f"event {ev} via {via}: no rule and no fallback, yet status() returned")
                    out.probe("no-destination-raises")
                else:
                    if raised is not None:
                        out.violate("router-raised", type(raised).__name__, f"event {ev} via {via}: {raised!r}; rules {prefix_rules} {id_rules}")
                    expect[dest].append(("status", fields))
                    if via is not None and prefix_rules.get(via, (None, False))[1]:
                        out.probe("push-pop-pair")
                        if arrive != rc:
                            raise AssertionError("model: push/pop must restore")
        except AssertionError:
            raise
        except Exception as e:   # noqa: add_rule/start/stop must not raise on these inputs
            out.violate("router-raised", f"{op[0]}:{type(e).__name__}", f"op {op}: {e!r}")

    # ---------------------------------------------------------------- compare logs
    for name, want in expect.items():
        got = [e for e in world.events if e.target == name]
        gm = [(e.method,) if e.method != "status" else ("status", e.data) for e in got]
        ws = [w for w in want]
        # start/stop
        g_ss = [g[0] for g in gm if g[0] != "status"]
        w_ss = [w[0] for w in ws if w[0] != "status"]
        if name in either and g_ss != w_ss:
            k = sum(1 for w in ws[:either[name]] if w[0] != "status")
            w_ss = w_ss[:k] + ["startTestRun", "stopTestRun"] + w_ss[k:]
        if g_ss != w_ss:
            registered = name in startstop
            out.violate("startstop-mismatch",
                        ("registered" if registered else "unregistered") + ":" + ("extra" if len(g_ss) > len(w_ss) else "missing" if len(g_ss) < len(w_ss) else "order"),
                        f"sink {name}: start/stop calls {g_ss}, expected {w_ss}; ops {ops}")
        g_ev = [g[1] for g in gm if g[0] == "status"]
        w_ev = [w[1] for w in ws if w[0] == "status"]
        if len(g_ev) != len(w_ev):
            out.violate("misrouted" if len(g_ev) < len(w_ev) else "multi-delivered", "count",
                        f"sink {name}: {len(g_ev)} events, expected {len(w_ev)}; rules prefix {prefix_rules} id {id_rules} fallback {fallback}; ops {ops}")
            continue
        for g, w in zip(g_ev, w_ev):
            for f, wv in w.items():
                if g.get(f) != wv:
                    out.violate("route-code-wrong" if f == "route_code" else "field-changed", f,
                                f"sink {name}: received {g}, expected {w}")
                    break
    total_got = sum(1 for e in world.events if e.method == "status")
    total_want = sum(1 for w in expect.values() for c in w if c[0] == "status")
    if total_got > total_want:
        out.violate("multi-delivered", "total", f"{total_got} deliveries for {total_want} routable events")
    # ---------------------------------------------------------------- accounting
    out.nontrivial = bool(prefix_rules or id_rules) and any(op[0] == "event" and op[1]["route_code"] for op in ops)
    if any(op[0] in ("add_prefix", "add_id") and i > 0 and any(o[0] == "start" for o in ops[:i]) and not any(o[0] == "stop" for o in ops[:i])
           for i, op in enumerate(ops)):
        out.probe("rule-added-during-run")
    if any(c for _, c in prefix_rules.values()):
        out.probe("consuming-rule")
    out.steps = len(ops)
    out.sim_time = float(len(ops))
    out.hhash = digest_of(fallback, fb_ss, [(op[0],) + tuple(op[1:] if op[0] != "event" else (op[1]["route_code"], op[1]["test_id"], op[2])) for op in ops])
    out.ihash = None
    if opts.get("want_sample"):
        out.sample = {"fallback": fallback, "fallback_startstop": fb_ss,
                      "ops": [[o if not isinstance(o, dict) else {k: (v.decode() if isinstance(v, bytes) else v) for k, v in o.items()} for o in op] for op in ops],
                      "deliveries": {n: sum(1 for e in world.events if e.target == n) for n in expect}}
    return out


class _Reentrant:
    """A sink that calls back into the router the first time the router starts (or stops) it."""

    def __init__(self, inner, when, action):
        self.inner, self.when, self.action = inner, when, action
        self.done = False

    def _maybe(self, when):
        if self.when == when and not self.done:
            self.done = True
            self.action()

    def startTestRun(self):
        self.inner.startTestRun()
        self._maybe("start")

    def stopTestRun(self):
        self.inner.stopTestRun()
        self._maybe("stop")

    def status(self, **kw):
        self.inner.status(**kw)


class _Q:
    def __init__(self):
        self.items = []

    def put(self, item):
        self.items.append(item)
