"""C17 -- tags are scoped: on every TestResult implementation and adapter current_tags equals
the tags added minus removed since startTestRun, changes made between startTest and stopTest
are discarded at stopTest, changes made outside persist; the tags a wrapped result or stream
consumer observes for a test equal the reporter's current tags at that test's outcome."""

import io
import threading

from testtools.testresult.real import (
    TestResult, TextTestResult, MultiTestResult, ThreadsafeForwardingResult, ExtendedToOriginalDecorator,
    ExtendedToStreamDecorator, StreamToExtendedDecorator, CopyStreamResult, TestByTestResult,
)

from simkit.driver import Outcome
from simkit.targets import World, T26, T27, TExt, TTwisted, TStream, OUTCOMES
from simkit.tape import digest_of
from simkit import vclock, pipeline as pl
from simkit.lifecycle import LoggingTestResult

ID = "C17"
RUNS = {"quick": 320_000, "thorough": 3_000_000}
SIM_TIME_UNIT = "reporter calls"
RULE = (
    "each run = a scripted reporter issuing a history that interleaves startTestRun, tags(new, gone) with disjoint "
    "sets over a 4-tag alphabet outside and inside tests (also between the outcome and stopTest), startTest, outcomes "
    "and stopTest over 0..5 tests, including the startTest-less addSkip+stopTest pair of Python 3.12.1, into one "
    "reporter-side object: TestResult, TextTestResult, TestByTestResult, MultiTestResult, ThreadsafeForwardingResult, "
    "ExtendedToOriginalDecorator over every target flavour, ExtendedToStreamDecorator feeding a sink and "
    "StreamToExtendedDecorator, or a 1..3-deep adapter stack as in C08; after every call current_tags is compared "
    "with a two-set model, at every outcome the tags seen by each wrapped target are compared with it; distinct = "
    "digest of (reporter-side object shape, call-kind sequence); non-trivial = tags changed both inside and outside a test"
)
REAL_STUB = {
    "real": ["TagContext", "TestResult/TextTestResult/TestByTestResult/MultiTestResult/ThreadsafeForwardingResult tag handling",
             "ExtendedToOriginalDecorator", "ExtendedToStreamDecorator", "StreamToExtendedDecorator + PlaceHolder.run", "Tagger/TestResultDecorator"],
    "stub": ["reporter (scripted)", "targets and stream sink (recording)", "semaphore (a real, uncontended threading.Semaphore)"],
}
ASSUMPTIONS = [
    "new and gone sets of one tags() call are disjoint",
    "TestByTestResult's callback tags are C08's business (they are taken at stopTest)",
    "below a Tagger the expected tags include the Tagger's own change applied at startTest",
]


def gen_top(tape):
    k = tape.weighted("config", [(2, "TestResult"), (1, "TextTestResult"), (1, "ExtendedTestResult-double"), (1, "TestByTestResult"), (3, "Multi"), (3, "TFR"),
                                 (3, "E2O"), (3, "E2Stream"), (4, "stack")], "reporter-side")
    if k == "Multi":
        return [k, [tape.choice("config", ("extended", "testtools", "2.7", "2.6"), "flavour") for _ in range(1 + tape.draw("config", 2, "fanout"))]]
    if k in ("TFR", "E2O"):
        return [k, tape.choice("config", ("extended", "testtools", "2.7", "2.6", "twisted"), "flavour")]
    if k == "stack":
        return [k, pl.gen_stack(tape, allow_bytest=False, allow_tfr=True)]
    return [k]


def _target(world, flavour, name):
    if flavour == "testtools":
        return LoggingTestResult(world, name)
    return {"2.6": T26, "2.7": T27, "extended": TExt, "twisted": TTwisted}[flavour](world, name)


def run_one(tape, opts):
    out = Outcome()
    top = gen_top(tape)
    hist = pl.gen_history(tape, skip_pair=True, extras=False, times=False, test_kinds=("testcase", "placeholder"),
                          max_tests=9 if opts.get("tier") == "thorough" else 5)
    clock = vclock.VClock()
    vclock.install(clock)
    world = World()
    k = top[0]

    def construct(world):
      observers = []     # (name, kind, obj/None, taggers)
      kept_dicts = []
      tagger_top = []
      if True:
        if k == "TestResult":
            result = TestResult()
        elif k == "TextTestResult":
            result = TextTestResult(io.StringIO())
        elif k == "ExtendedTestResult-double":
            # the recording TestResult implementation the package ships for other people's tests
            from testtools.testresult.doubles import ExtendedTestResult
            result = ExtendedTestResult()
        elif k == "TestByTestResult":
            result = TestByTestResult(lambda **kw: None)
        elif k == "Multi":
            tg = [_target(world, fl, f"{fl}#{i}") for i, fl in enumerate(top[1])]
            result = MultiTestResult(*tg)
            observers = [(t._name, fl, ()) for t, fl in zip(tg, top[1])]
        elif k == "TFR":
            t = _target(world, top[1], top[1] + "#0")
            result = ThreadsafeForwardingResult(t, threading.Semaphore(1))
            observers = [(t._name, top[1], ())]
        elif k == "E2O":
            t = _target(world, top[1], top[1] + "#0")
            result = ExtendedToOriginalDecorator(t)
            observers = [(t._name, top[1], ())]
        elif k == "E2Stream":
            sink = TStream(world, "sink")
            ext = TExt(world, "replayed")
            from testtools.testresult.real import StreamToDict
            kept_dicts = []
            result = ExtendedToStreamDecorator(CopyStreamResult([sink, StreamToExtendedDecorator(ext), StreamToDict(kept_dicts.append)]))
            observers = [("sink", "stream", ()), ("replayed", "extended", ()), ("dicts", "dicts", ())]
        else:
            built = pl.Built()
            result = pl.build_stack(top[1], world, built, make_testtools=lambda w, n: LoggingTestResult(w, n))
            observers = [(t["name"], t["flavour"], tuple(t["taggers"])) for t in built.terminals]
            # a Tagger on the path from the top down to the first non-passthrough node changes what the
            # reporter-side object itself reports as current
            # (ExtendedToOriginalDecorator / TestResultDecorator / Tagger answer current_tags from the
            # object below them; MultiTestResult and the terminals keep their own)
            spec = top[1]
            while spec[0] in ("tagger", "trd", "e2o"):
                if spec[0] == "tagger":
                    tagger_top.append((tuple(spec[1]), tuple(spec[2])))
                    spec = spec[3]
                else:
                    spec = spec[1]
      return result, observers, kept_dicts, tagger_top

    try:
        result, observers, kept_dicts, tagger_top = construct(world)
        # a second pipeline of the same shape, alive at the same time and fed between the main one's calls:
        # its tags are none of the main one's business
        decoy = None
        if tape.chance("config", 1, 3, "decoy-pipeline"):
            decoy = pl.Decoy(lambda w, b: construct(w)[0],
                             [c for c in pl.DECOY_HISTORY if not (k == "TestByTestResult" and c[0] == "time")])
    except Exception:
        vclock.uninstall()
        raise
    # which observers can see tags at all
    def sees_tags(fl):
        return fl in ("extended", "testtools", "stream", "dicts")

    rep = pl.Reporter(result, hist)
    rep.reuse_tag_sets = tape.chance("config", 1, 3, "reporter-reuses-tag-sets")
    model = pl.TagModel()                       # the reporter's view
    top_model = pl.TagModel()                   # what the reporter-side object should report (incl. its own Tagger layers)
    obs_models = {name: pl.TagModel() for name, fl, tg in observers}
    expected_at_outcome = {name: [] for name, fl, tg in observers}
    reads = 0
    aborted = False
    try:
        while True:
            clock.tick()
            try:
                c = rep.step()
            except Exception as e:   # noqa
                import traceback
                tb = traceback.extract_tb(e.__traceback__)
                where = next((f"{f.name}" for f in reversed(tb) if "/testtools/" in f.filename and "/verif/" not in f.filename), "?")
                cc = hist[rep.i - 1]
                after_pair = _after_skip_pair(hist, rep.i - 1)
                out.violate("tags-raised", f"{type(e).__name__}-in-{where}" + (":after-startTest-less-stopTest" if after_pair else ""),
                            f"call {cc} on {top} raised {e!r}\n{traceback.format_exc()[-500:]}\nhistory so far {hist[:rep.i]}")
                aborted = True
                break
            if c is None:
                break
            if decoy is not None:
                decoy.step()
            model.apply(c)
            top_model.apply(c)
            if c[0] == "startTest":
                for new, gone in reversed(tagger_top):
                    top_model.apply(["tags", list(new), list(gone)])
            for name, fl, tg in observers:
                m = obs_models[name]
                m.apply(c)
                if c[0] == "startTest":
                    for new, gone in reversed(tg):
                        m.apply(["tags", list(new), list(gone)])
                if c[0] == "outcome":
                    expected_at_outcome[name].append((c[1], frozenset(m.current)))
            # 1. current_tags of the reporter-side object after every call
            try:
                cur = set(result.current_tags)
                reads += 1
            except Exception as e:   # noqa
                after_pair = _after_skip_pair(hist, rep.i)
                out.violate("tags-raised", f"current_tags:{type(e).__name__}" + (":after-startTest-less-stopTest" if after_pair else ""),
                            f"reading current_tags of {top} after {c} raised {e!r}; history so far {hist[:rep.i]}")
                aborted = True
                break
            if cur != top_model.current:
                out.violate("current-tags-mismatch", f"{k}:after-{c[0]}",
                            f"{top}: current_tags {sorted(cur)} after {c}, model {sorted(top_model.current)}; history so far {hist[:rep.i]}")
                aborted = True
                break
        if decoy is not None:
            decoy.finish(out, top)
            out.probe("decoy-pipeline" if decoy.reference is not None else "decoy-pipeline-not-applicable")
    finally:
        vclock.uninstall()
    if rep.mutated_args:
        c, before, after = rep.mutated_args[0]
        out.violate("caller-arg-mutated", f"{k}:tags-arguments", f"{top}: the sets passed to {c} were changed from {before} to {after}")
    # 2. tags observed by wrapped targets at each outcome
    if not aborted:
        for name, fl, tg in observers:
            if not sees_tags(fl):
                continue
            if fl == "dicts":
                # what the consumer was handed, as it reads now, after all later events: the tags of
                # an already reported test must not move with the reporter's later tag changes
                got = [(d["id"], frozenset(d["tags"] or ())) for d in kept_dicts if d["status"] not in ("inprogress", "unknown")]
            elif fl == "stream":
                got = [(e.data["test_id"], frozenset(e.data["test_tags"] or ())) for e in world.events
                       if e.target == name and e.method == "status" and e.data["test_status"] not in (None, "inprogress")]
            else:
                got = [(e.test_id, frozenset((e.data or {}).get("tags") or ())) for e in world.events if e.target == name and e.method in OUTCOMES]
            want = expected_at_outcome[name]
            if name == "replayed":
                # StreamToExtendedDecorator only replays complete tests; same ids in order
                pass
            if [g[0] for g in got] != [w[0] for w in want]:
                continue   # delivery problems are C08/C09's business
            for (tid, gt), (_, wt) in zip(got, want):
                if gt != wt:
                    out.violate("observed-tags-mismatch", f"{k}->{fl}",
                                f"{top}: target {name} saw tags {sorted(gt)} at the outcome of {tid}, reporter had {sorted(wt)}; history {hist}")
                    break
    # accounting
    inside = outside = False
    depth = 0
    for c in hist:
        if c[0] == "startTest":
            depth = 1
        elif c[0] == "stopTest":
            depth = 0
        elif c[0] == "tags" and (c[1] or c[2]):
            if depth:
                inside = True
            else:
                outside = True
    out.nontrivial = inside and outside
    if any(c[0] == "outcome" and hist[i - 1][0] != "startTest" and not _in_test(hist, i) for i, c in enumerate(hist)):
        out.probe("startTest-less-skip-pair")
    out.probe("reporter-side:" + k)
    out.steps = len(hist)
    out.sim_time = float(len(hist))
    out.hhash = digest_of(top, [c[0] if c[0] != "tags" else ("tags", bool(c[1]), bool(c[2])) for c in hist])
    out.ihash = None
    if opts.get("want_sample"):
        out.sample = {"reporter_side": top, "history": [c if c[0] != "outcome" else c[:5] for c in hist], "current_tags_reads": reads}
    return out


def _in_test(hist, i):
    for c in reversed(hist[:i]):
        if c[0] == "startTest":
            return True
        if c[0] in ("stopTest", "startTestRun"):
            return False
    return False


def _after_skip_pair(hist, upto):
    """Did a stopTest without a startTest occur in hist[:upto]?"""
    open_ = False
    for c in hist[:upto]:
        if c[0] == "startTest":
            open_ = True
        elif c[0] == "stopTest":
            if not open_:
                return True
            open_ = False
    return False
