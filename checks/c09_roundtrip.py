"""C09 -- TestResult -> ExtendedToStreamDecorator -> StreamToExtendedDecorator -> TestResult
reproduces for each test one bracket with the same id, outcome (error travels as failure),
tags, supplied times, skip reason and every non-empty detail (bytes and content type); the
stream in between is well formed (inprogress, file events in chunk order with eof exactly on
each detail's last chunk, exactly one final status)."""

from testtools.testresult.real import ExtendedToStreamDecorator, StreamToExtendedDecorator, CopyStreamResult
from testtools.content_type import ContentType

from simkit.driver import Outcome
from simkit.targets import World, TExt, TStream, OUTCOMES
from simkit.tape import digest_of
from simkit import vclock, pipeline as pl

ID = "C09"
RUNS = {"quick": 100_000, "thorough": 3_000_000}
SIM_TIME_UNIT = "reporter calls"
RULE = (
    "each run = a scripted reporter issuing a well-formed TestResult history (0..5 tests; every outcome kind given as "
    "exc_info / details / reason; 0..4 details of 0..4 chunks incl. empty chunks; text and binary content types with "
    "0..2 parameters from the safe MIME domain; non-ASCII detail names and reasons; tags inside and outside tests; "
    "time() supplied or left to the virtual clock; optionally a second run) into ExtendedToStreamDecorator, whose events "
    "go to a recording tap and into StreamToExtendedDecorator over an extended recording target; distinct = digest of the "
    "per-test (outcome, mode, detail shapes) sequence; non-trivial = >=1 test carrying >=1 detail with >=2 chunks or a "
    "content type with parameters"
)
REAL_STUB = {
    "real": ["ExtendedToStreamDecorator (_convert, startTest, tags/time tracking)", "StreamToExtendedDecorator", "_StreamToTestRecord/_TestRecord",
             "PlaceHolder.run", "ExtendedToOriginalDecorator", "ContentType.__repr__ / _make_content_type", "TracebackContent"],
    "stub": ["reporter (scripted)", "tap and final target (recording)", "wall clock (virtual)"],
}
ASSUMPTIONS = [
    "content-type parameters stay in the safe MIME domain (lower-case tokens, no quote/backslash/CR/LF, charset without comma): the ContentType <-> MIME-string inverse is a pure function and is only exercised, not decided, here",
    "details whose bytes are all empty need not survive (the property says non-empty)",
]

WANT_METHOD = {"addSuccess": "addSuccess", "addFailure": "addFailure", "addError": "addFailure", "addSkip": "addSkip",
               "addExpectedFailure": "addExpectedFailure", "addUnexpectedSuccess": "addUnexpectedSuccess"}
FINAL_STATUS = {"addSuccess": "success", "addFailure": "fail", "addError": "fail", "addSkip": "skip",
                "addExpectedFailure": "xfail", "addUnexpectedSuccess": "uxsuccess"}


def run_one(tape, opts):
    out = Outcome()
    hist = pl.gen_history(tape, extras=False, rich_details=True, test_kinds=("testcase", "placeholder"),
                          max_tests=9 if opts.get("tier") == "thorough" else 5)
    clock = vclock.VClock()
    vclock.install(clock)
    world = World()
    tap = TStream(world, "tap")
    final = TExt(world, "final")
    result = ExtendedToStreamDecorator(CopyStreamResult([tap, StreamToExtendedDecorator(final)]))
    rep = pl.Reporter(result, hist)
    rep.one_shot_details = tape.chance("config", 1, 3, "one-shot-detail-payloads")
    # a second converter pair alive at the same time, fed between the main one's calls
    decoy = None
    if tape.chance("config", 1, 3, "decoy-pipeline"):
        decoy = pl.Decoy(lambda w, b: ExtendedToStreamDecorator(CopyStreamResult(
            [TStream(w, "tap"), StreamToExtendedDecorator(TExt(w, "final"))])))
    model = pl.TagModel()
    tests = []
    override = None
    raised = False
    try:
        while True:
            lo = clock.peek()
            clock.tick()
            try:
                c = rep.step()
            except Exception as e:   # noqa
                import traceback
                tb = traceback.extract_tb(e.__traceback__)
                where = next((f.name for f in reversed(tb) if "/testtools/" in f.filename and "/verif/" not in f.filename), "?")
                out.violate("converter-raised", f"{type(e).__name__}-in-{where}", f"call {hist[rep.i - 1]}\n{traceback.format_exc()[-700:]}")
                raised = True
                break
            if c is None:
                break
            if decoy is not None:
                decoy.step()
            hi = clock.peek()
            model.apply(c)
            if c[0] == "time":
                override = c[1]
            elif c[0] == "startTestRun":
                override = None
            elif c[0] == "startTest":
                tests.append({"tid": c[1], "t0": ("explicit", override) if override is not None else ("clock", lo, hi), "seq0": world.seq})
            elif c[0] == "outcome":
                tests[-1].update(method=c[3], mode=c[4], payload=c[5], tags=frozenset(model.current),
                                 t1=("explicit", override) if override is not None else ("clock", lo, hi))
            elif c[0] == "stopTest":
                tests[-1]["complete"] = True
        if decoy is not None:
            decoy.finish(out, "E2S->S2E")
            out.probe("decoy-pipeline")
    finally:
        vclock.uninstall()
    if not raised:
        _check_tap(out, world, tests)
        _check_final(out, world, tests)
    rich = any(len(sp[1]) >= 2 or (len(sp) > 2 and pl.CTYPES[sp[2]][2]) for t in tests for sp in (t.get("payload", {}).get("details") or {}).values())
    out.nontrivial = rich
    for t in tests:
        if "method" in t:
            out.probe("outcome:" + t["method"] + ":" + t["mode"])
    out.steps = len(hist)
    out.sim_time = float(len(hist))
    out.hhash = digest_of([(t.get("method"), t.get("mode"), sorted((n, len(sp[1]), sp[2] if len(sp) > 2 else -1) for n, sp in (t.get("payload", {}).get("details") or {}).items())) for t in tests])
    out.ihash = None
    if opts.get("want_sample"):
        out.sample = {"history": _js(hist),
                      "tap": [(e.data["test_id"], e.data["test_status"], e.data["file_name"], e.data["eof"]) for e in world.events if e.target == "tap" and e.method == "status"][:80],
                      "final": [(e.method, e.test_id) for e in world.events if e.target == "final"][:60]}
    return out


def _js(x):
    if isinstance(x, bytes):
        return x.decode("latin-1")
    if isinstance(x, dict):
        return {k: _js(v) for k, v in x.items()}
    if isinstance(x, (list, tuple)):
        return [_js(v) for v in x]
    return x


def _time_ok(got, exp):
    if exp[0] == "explicit":
        return got == vclock.explicit_time(exp[1])
    us = vclock.us_of(got)
    return us is not None and exp[1] < us <= exp[2]


def _check_tap(out, world, tests):
    evs = [e for e in world.events if e.target == "tap" and e.method == "status"]
    for t in tests:
        if "method" not in t:
            continue
        mine = [e.data for e in evs if e.data["test_id"] == t["tid"]]
        if not mine or mine[0]["test_status"] != "inprogress" or mine[0]["file_name"] is not None:
            out.violate("stream-malformed", "no-inprogress-first", f"{t['tid']}: {[(d['test_status'], d['file_name']) for d in mine]}")
            continue
        if not _time_ok(mine[0]["timestamp"], t["t0"]):
            out.violate("stream-malformed", "inprogress-timestamp", f"{t['tid']}: {mine[0]['timestamp']} expected {t['t0']}")
        finals = [i for i, d in enumerate(mine) if d["test_status"] not in (None, "inprogress")]
        if len(finals) != 1 or finals[0] != len(mine) - 1:
            out.violate("stream-malformed", "final-status-count-or-position", f"{t['tid']}: statuses {[d['test_status'] for d in mine]}")
            continue
        fin = mine[-1]
        if fin["test_status"] != FINAL_STATUS[t["method"]]:
            out.violate("stream-malformed", "final-status-kind", f"{t['tid']}: {fin['test_status']} for {t['method']}")
        if frozenset(fin["test_tags"] or ()) != t["tags"]:
            out.violate("roundtrip-mismatch", "tags:stream", f"{t['tid']}: final event tags {sorted(fin['test_tags'] or ())}, reporter had {sorted(t['tags'])}")
        files = mine[1:-1]
        if any(d["test_status"] is not None for d in files):
            out.violate("stream-malformed", "status-between", f"{t['tid']}")
        # details in chunk order, eof exactly on the last chunk of each detail
        want = []
        det = t["payload"].get("details") or {}
        for name, spec in det.items():
            chunks = list(spec[1]) or [b""]
            for i, ch in enumerate(chunks):
                want.append((name, ch, i == len(chunks) - 1))
        got = [(d["file_name"], d["file_bytes"], bool(d["eof"])) for d in files]
        if t["mode"] == "details":
            if t["method"] == "addSkip":
                pass
            if got[:len(want)] != want:
                key = "eof" if [(g[0], g[1]) for g in got[:len(want)]] == [(w[0], w[1]) for w in want] else "chunks"
                out.violate("stream-malformed", "file-events:" + key, f"{t['tid']}: file events {got}\nexpected {want}")
            extra = got[len(want):]
            if extra and not (t["method"] == "addSkip" and all(g[0] == "reason" for g in extra)):
                out.violate("stream-malformed", "extra-file-events", f"{t['tid']}: {extra}")
        elif t["mode"] == "exc_info":
            names = {g[0] for g in got}
            if names != {"traceback"} or not any(t["payload"]["exc"].encode() in g[1] for g in got):
                out.violate("stream-malformed", "traceback-file", f"{t['tid']}: {got}")
            last = [g for g in got if g[0] == "traceback"]
            if [g[2] for g in last] != [False] * (len(last) - 1) + [True]:
                out.violate("stream-malformed", "file-events:eof", f"{t['tid']}: traceback eof flags {[g[2] for g in last]}")
        elif t["mode"] == "reason":
            if got != [("reason", t["payload"]["reason"].encode("utf8"), True)]:
                out.violate("stream-malformed", "reason-file", f"{t['tid']}: {got}")
        for d in mine:
            if d["timestamp"] is None:
                out.violate("stream-malformed", "timestamp-missing", f"{t['tid']}: {d}")
                break


def _check_final(out, world, tests):
    evs = [e for e in world.events if e.target == "final"]
    done = [t for t in tests if "method" in t]
    brackets = []
    cur = None
    for e in evs:
        if e.method == "startTest":
            cur = {"id": e.test_id, "start": e, "outs": []}
        elif e.method in OUTCOMES and cur is not None:
            cur["outs"].append(e)
        elif e.method == "stopTest" and cur is not None:
            brackets.append(cur)
            cur = None
    if [b["id"] for b in brackets] != [t["tid"] for t in done]:
        out.violate("roundtrip-mismatch", "brackets", f"final result saw tests {[b['id'] for b in brackets]}, reporter reported {[t['tid'] for t in done]}")
        return
    for b, t in zip(brackets, done):
        if len(b["outs"]) != 1:
            out.violate("roundtrip-mismatch", "outcome-count", f"{t['tid']}: {[e.method for e in b['outs']]}")
            continue
        e = b["outs"][0]
        if e.method != WANT_METHOD[t["method"]]:
            out.violate("roundtrip-mismatch", "outcome", f"{t['tid']}: {t['method']} arrived as {e.method}")
        data = e.data or {}
        if frozenset(data.get("tags") or ()) != t["tags"]:
            out.violate("roundtrip-mismatch", "tags", f"{t['tid']}: final result saw {sorted(data.get('tags') or ())}, reporter had {sorted(t['tags'])}")
        if not _time_ok(b["start"].data["time"], t["t0"]):
            out.violate("roundtrip-mismatch", "start-time", f"{t['tid']}: {b['start'].data['time']} expected {t['t0']}")
        if not _time_ok(data.get("time"), t["t1"]):
            out.violate("roundtrip-mismatch", "end-time", f"{t['tid']}: {data.get('time')} expected {t['t1']}")
        det = data.get("details") or {}
        if t["mode"] == "details":
            for name, spec in t["payload"]["details"].items():
                sent = b"".join(spec[1])
                if not sent:
                    continue
                d = det.get(name)
                if d is None:
                    out.violate("roundtrip-mismatch", "detail-lost", f"{t['tid']}: detail {name!r} ({sent!r}) missing; arrived {sorted(det)}")
                    continue
                if d["bytes"] != sent:
                    out.violate("roundtrip-mismatch", "detail-bytes", f"{t['tid']}: {name!r} arrived {d['bytes']!r}, sent {sent!r}")
                ct = pl.content_type_of(spec)
                want_type = (ct.type, ct.subtype, tuple(sorted(ct.parameters.items())))
                if d["type"] != want_type:
                    out.violate("roundtrip-mismatch", "content-type", f"{t['tid']}: {name!r} arrived as {d['type']}, sent {want_type}")
        elif t["mode"] == "exc_info":
            d = det.get("traceback")
            if d is None or t["payload"]["exc"].encode() not in d["bytes"]:
                out.violate("roundtrip-mismatch", "traceback", f"{t['tid']}: {sorted(det)}")
        if t["method"] == "addSkip" and t["mode"] == "reason":
            d = det.get("reason")
            got_reason = data.get("reason") or (d and d["bytes"].decode("utf8"))
            if got_reason != t["payload"]["reason"]:
                out.violate("roundtrip-mismatch", "skip-reason", f"{t['tid']}: {got_reason!r} expected {t['payload']['reason']!r}")
