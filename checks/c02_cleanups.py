"""C02 -- stages run in order; every cleanup runs exactly once, LIFO, whatever failed;
nothing is left behind; a re-run of the same instance repeats the same sequence."""

from simkit.driver import Outcome
from simkit.program import Cfg, gen_program
from simkit import lifecycle as lc

ID = "C02"
RUNS = {"quick": 170_000, "thorough": 3_000_000}
SIM_TIME_UNIT = "scripted user operations executed"
RULE = (
    "each run = one generated program (cleanups registered from setUp before/after the upcall, the test "
    "method, tearDown and from other cleanups; patch() of present/absent attributes incl. several patches "
    "of one attribute; fixtures whose setUp/cleanups fail) x fault plan x a history of 1..3 run() calls on "
    "the same instance; the executed-op log is compared with a 40-line reference interpreter; distinct = "
    "digest of (raised kinds+stages, executed-op shape, outcomes of every run); non-trivial = >=1 cleanup "
    "registered and >=1 scripted op raised"
)
REAL_STUB = {
    "real": ["TestCase.run/_reset/addCleanup/patch/useFixture", "RunTest._run_core/_run_cleanups",
             "testtools.monkey.MonkeyPatcher", "fixtures.Fixture"],
    "stub": ["user stages (scripted ops)", "result target (simkit.targets)"],
}
ASSUMPTIONS = [
    "programs always upcall setUp/tearDown (the ValueError path is a different contract)",
    "external sources behind lazy details are reset between runs of a history",
    "addOnException handler invocations are not part of the compared sequence (handlers are not reset by design)",
]


def run_one(tape, opts):
    out = Outcome()
    c = Cfg()
    c.raise_num, c.raise_den = (1, 3) if tape.chance("config", 1, 2, "fault-rate") else (1, 6)
    c.max_ops = 1 + tape.draw("config", 3, "max-ops")
    c.details = tape.chance("config", 1, 4, "details")
    c.matchers = tape.chance("config", 1, 3, "matchers")
    c.onexc = False
    c.max_cleanups = 5
    flavour = tape.choice("config", ("extended", "testtools", "2.7", "stream"), "flavour")
    nruns = tape.weighted("config", [(4, 1), (2, 2), (1, 3)], "history-length")
    if opts.get("tier") == "thorough":
        c.max_ops += 2
        c.max_cleanups += 2
    runner = lc.draw_runner(tape)
    if runner != "plain":
        c.skip_decorators = False     # what @skip does to setUp/tearDown under the Twisted runners is not in any property
    prog = gen_program(tape, c)
    sim = lc.simulate(prog, flavour, nruns=nruns, runner=runner)
    lc.oracle_exec(sim, out)
    m = sim.model
    for r in m.R:
        out.fire("raise:" + r.kind)
    out.plan("user-exception")
    ncl = sum(1 for e in m.log if e[0] == "cleanup")
    if ncl:
        out.probe("cleanup-ran", ncl)
    if any(e[0] == "fx-cleanup" for e in m.log):
        out.probe("fixture-cleanup-ran")
    if any(it["op"][0] == "cleanup" for body in prog["cleanups"].values() for it in body):
        out.probe("cleanup-registered-from-cleanup-body")
    if m.setup_ok is False:
        out.probe("setUp-failed")
    npatch = sum(1 for e in m.log if e[0] == "op" and _op(prog, e[1]) == "patch")
    if npatch:
        out.probe("patch-applied", npatch)
    out.nontrivial = bool(m.R) and ncl > 0
    out.steps = sum(len(rr.exec_log) for rr in sim.runs)
    out.sim_time = float(out.steps)
    out.hhash = lc.history_hash(sim)
    out.probe("runner:" + runner)
    if opts.get("want_sample"):
        out.sample = lc.sample_of(sim)
    return out


_OPS = {}


def _op(prog, oid):
    key = id(prog)
    tab = _OPS.get(key)
    if tab is None:
        _OPS.clear()
        tab = {}
        for lst in list(prog["stages"].values()) + list(prog["cleanups"].values()):
            for it in lst:
                tab[it["id"]] = it["op"][0]
        _OPS[key] = tab
    return tab.get(oid)
