"""C14 -- AsynchronousDeferredRunTest: stages may return Deferreds, the next stage starts only
after the previous has fired, one outcome, success iff everything completed cleanly inside the
timeout with nothing logged/unhandled/left scheduled; timeout or interrupt yields an error
(an interrupt also stops the result); afterwards the reactor is clean and Twisted's log
observers are those installed before."""

import gc
import signal
import unittest

from twisted.internet import defer
from twisted.python import log as tw_log
from twisted.python.failure import Failure
from twisted.logger import globalLogPublisher

import testtools
from testtools.twistedsupport import _runtest as rt

from simkit.driver import Outcome
from simkit.reactor import SimReactor, Sim, SimHang, FakeSelectable
from simkit.targets import World, TExt, OUTCOMES
from simkit.tape import digest_of
from simkit.program import _RETURNS

try:   # keep Twisted from printing buffered "Unhandled Error" reports to stderr
    from twisted.logger import globalLogBeginner
    globalLogBeginner.beginLoggingTo([lambda event: None], redirectStandardIO=False, discardBuffer=True)
except Exception:   # pragma: no cover
    pass

ID = "C14"
RUNS = {"quick": 22_000, "thorough": 1_200_000}
MAX_BATCH = 2000
SIM_TIME_UNIT = "virtual seconds"
RULE = (
    "each run = one scripted TestCase under AsynchronousDeferredRunTest (plain or ForBrokenTwisted, logging "
    "suppression/capture on or off) over a virtual-time reactor: setUp, test, tearDown and 0..3 cleanups each "
    "return / raise (failure, error, skip) / return a Deferred that is fired, failed, fires or fails after a "
    "delay from the tie-prone grid, or never fires; stages also leave delayed calls or selectables behind, "
    "log errors (flushed or not), drop failed Deferreds; the runner timeout is drawn from the same grid; "
    "external events (SIGINT, reactor.stop) arrive at drawn virtual instants or inside a stage; distinct = "
    "digest of (runner config, per-stage behaviour class, relation of each completion time to the deadline "
    "and to the interrupt instant, outcome); non-trivial = the reactor iterated at least once or an event fired"
)
REAL_STUB = {
    "real": ["AsynchronousDeferredRunTest(+ForBrokenTwisted): _run_deferred, _run_cleanups, _blocking_run_deferred, _run_core",
             "Spinner, trap_unhandled_errors", "log fixtures (_NoTwistedLogObservers, CaptureTwistedLogs, _ErrorObserver)",
             "twisted Deferred/inlineCallbacks, twisted log system, ReactorBase scheduling", "TestCase.run / RunTest outcome selection"],
    "stub": ["reactor.seconds/doIteration (virtual time)", "selectables", "signal delivery (handler called synchronously)",
             "user stages (scripted)", "result (extended recording target)"],
}
ASSUMPTIONS = [
    "tie runs (a stage's model start/completion time equals the deadline or an interrupt instant; an interrupt inside the last synchronous stretch; a leftover call due exactly at the end) are checked against the global invariants only: Twisted's runUntilCurrent runs every call due in the same iteration",
    "SIGINT is delivered with default_int_handler pre-installed, i.e. it is a stop request",
    "two clauses hold in tie runs too: a SIGINT delivered inside the last synchronous stretch, and an outside interrupt exactly one reactor turn before a two-turn completion, yield an error and ask the result to stop",
    "no KeyboardInterrupt/SystemExit raised by stages here (C01 covers that on the synchronous runner)",
]

GRID = (0, 1, 2, 3, 5)
ENDS = ("return", "raise", "fired", "failed", "later_fire", "later_fail", "never")
INF = float("inf")


def _exc(kind, marker):
    if kind == "fail":
        return AssertionError(marker)
    if kind == "skip":
        return unittest.SkipTest(marker)
    return RuntimeError(marker)


def gen_stage(tape, name, cleanups, allow_cleanup, n, hot=1):
    side = []
    for _ in range(tape.weighted("program", [(7, 0), (3, 1), (1, 2)], "n-side")):
        k = tape.weighted("program", [(hot, "leave_call"), (1 if hot > 1 else 0, "selectable"), (hot, "log_err"), (hot, "drop_failed"),
                                      (1, "drop_failed_in_cycle"),
                                      (4 if allow_cleanup and len(cleanups) < 3 else 0, "cleanup"), (2, "nothing"),
                                      (1 if allow_cleanup else 0, "own_observer")], "side")
        if k == "nothing":
            continue
        if k == "leave_call":
            side.append(["leave_call", tape.choice("program", GRID + (9,), "leave-delay")])
        elif k == "log_err":
            side.append(["log_err", tape.chance("program", 1, 2, "flushed"), tape.choice("program", ("error", "fail"), "logged-exc-kind")])
        elif k == "cleanup":
            cid = "c%d" % len(cleanups)
            cleanups[cid] = None
            cleanups[cid] = gen_stage(tape, cid, cleanups, False, n, hot)
            side.append(["cleanup", cid])
        elif k in ("drop_failed", "drop_failed_in_cycle"):
            # (what was logged or dropped may be a failed assertion: the test's failureException)
            side.append([k, tape.choice("program", ("error", "fail"), "dropped-exc-kind")])
        else:
            side.append([k])
    if tape.chance("faults", 1, 10 * (4 - hot), "inner-interrupt"):
        side.append(["interrupt", tape.choice("faults", ("stop", "sigint"), "inner-kind")])
    end = [tape.weighted("program", [(8, "return"), (hot, "raise"), (3, "fired"), (hot, "failed"), (6, "later_fire"),
                                     (hot, "later_fail"), (1 if hot > 1 else 0, "never")], "end")]
    if end[0] in ("raise", "failed", "later_fail"):
        end.append(tape.choice("program", ("fail", "error", "skip") if end[0] == "raise" else ("fail", "error"), "exc-kind"))
    else:
        end.append(None)
    end.append(tape.choice("program", GRID, "delay") if end[0].startswith("later") else 0)
    # the same completion, built as defer.succeed(x).addCallback(<returns the pending Deferred>)
    end.append(end[0].startswith("later") and tape.chance("program", 1, 3, "chained-on-fired-deferred"))
    # the completion takes two reactor turns: the delayed call only schedules (callLater(0)) the call that fires
    end.append(end[0].startswith("later") and end[2] > 0 and tape.chance("program", 1, 4, "completion-takes-two-turns"))
    n[0] += 1
    return {"side": side, "end": end, "marker": "MK%d." % n[0]}


def gen(tape):
    cleanups = {}
    n = [0]
    hot = tape.weighted("config", [(2, 1), (2, 2), (1, 3)], "fault-intensity")   # swarm: calm / medium / hot
    stages = {s: gen_stage(tape, s, cleanups, s != "tearDown", n, hot) for s in ("setUp", "test", "tearDown")}
    cfg = {
        "broken": tape.chance("config", 1, 3, "broken-twisted"),
        "timeout": tape.weighted("config", [(1, 1), (2, 2), (2, 3), (3, 5), (3, 8), (3, 13), (2, 21)], "timeout"),
        "suppress": tape.chance("config", 1, 2, "suppress-logging"),
        "store": tape.chance("config", 1, 2, "store-logs"),
        # what stages return and their Deferreds fire with (nothing about the run may depend on it)
        "value": tape.weighted("config", [(8, None), (1, "zero"), (1, "any")], "stage-value"),
        # the innocent test that follows is synchronous or waits for a delayed call
        "followup_async": tape.chance("config", 1, 2, "follow-up-test-is-asynchronous"),
    }
    events = []
    for _ in range(tape.weighted("faults", [(9 - 2 * hot, 0), (hot, 1), (1 if hot > 2 else 0, 2)], "n-events")):
        events.append([tape.choice("faults", GRID + (7,), "event-time"), tape.choice("faults", ("stop", "sigint"), "event-kind")])
    if tape.chance("faults", 1, 6, "stall"):
        # the process stalls: the clock jumps and several timed calls are due in one iteration
        events.append([tape.choice("faults", (0, 1, 2, 3), "stall-at"), "stall:%d" % tape.choice("faults", (1, 3, 8, 20), "stall-by")])
    return stages, cleanups, cfg, events


# ------------------------------------------------------------------------------- model
def model(stages, cleanups, cfg, events):
    """Walk the stages on a virtual timeline.  Returns a dict of predictions + tie flag."""
    T = cfg["timeout"]
    m = {"starts": [], "raised": [], "tie": False, "halt": None, "leftover": False, "logged": 0, "unhandled": 0,
         "async": False}
    ext = sorted(at for at, kind in events if not kind.startswith("stall"))
    m["stalled"] = any(kind.startswith("stall") for at, kind in events)
    m["selectable_left"] = False
    m["never"] = False
    stack = []
    t = 0
    pending_calls = []   # due times of calls left by side effects
    inner = []           # (time, index in starts) of interrupts inside a stage
    two_turns = []       # (start, completion time) of stages whose completion takes two reactor turns

    def run(name, spec):
        nonlocal t
        m["starts"].append([name, t])
        for s in spec["side"]:
            if s[0] == "cleanup":
                stack.append(s[1])
            elif s[0] == "leave_call":
                pending_calls.append(t + s[1])
            elif s[0] == "selectable":
                m["leftover"] = True
                m["selectable_left"] = True
            elif s[0] == "log_err":
                if s[1]:
                    m["logged"] = 0      # flush_logged_errors() clears everything logged so far
                else:
                    m["logged"] += 1
            elif s[0] in ("drop_failed", "drop_failed_in_cycle"):
                m["unhandled"] += 1
            elif s[0] == "interrupt":
                inner.append((t, len(m["starts"]) - 1, s[1]))
        kind, exc, d = spec["end"][:3]
        if kind == "never":
            t = INF
            m["async"] = True
            m["never"] = True
            return "never"
        if kind.startswith("later"):
            m["async"] = True
            if len(spec["end"]) > 4 and spec["end"][4]:
                two_turns.append((t, t + d))
            t = t + d
        if kind in ("raise", "failed", "later_fail"):
            m["raised"].append(exc)
            return "raised"
        return "ok"

    ok = run("setUp", stages["setUp"])
    if ok == "ok":
        if run("test", stages["test"]) != "never":
            run("tearDown", stages["tearDown"])
    if t != INF:
        while stack and t != INF:
            cid = stack.pop()
            run(cid, cleanups[cid])
    m["t_end_chain"] = t
    # An outside interrupt at the very instant the delayed call of a two-turn completion is due comes strictly
    # first: the reactor is stopped in that turn, the call that fires the stage's Deferred is only due in the next
    # one.  (Whatever else about such a run is a tie, the test was interrupted while still waiting.)
    m["interrupt_one_turn_before_completion"] = bool(
        ext and not inner and not any(k.startswith("stall") for _, k in events) and ext[0] < T
        and any(s < ext[0] == e for s, e in two_turns))
    # --- deadline and interrupts
    cut = None   # (time, what)
    if t > T:
        cut = (T, "timeout")
    elif t == T and m["async"]:
        m["tie"] = True
    effective = list(ext)
    for at in effective:
        limit = min(t, T)
        if at < limit:
            if cut is None or at < cut[0]:
                cut = (at, "interrupt")
            elif at == cut[0]:
                m["tie"] = True
        elif at == limit and m["async"]:
            m["tie"] = True
    for at, idx, ikind in inner:
        # strict only if something after that instant completes strictly later
        later = [s for s in m["starts"][idx + 1:] if s[1] > at] or (t > at)
        if t > at or any(s[1] > at for s in m["starts"][idx + 1:]):
            if cut is None or at < cut[0]:
                cut = (at, "interrupt")
            elif at == cut[0] and cut[1] != "interrupt":
                m["tie"] = True
            # stages starting exactly at the interrupt instant may or may not run
            if any(s[1] == at for s in m["starts"][idx + 1:]) or t == at:
                m["tie"] = True
        else:
            m["tie"] = True
            if ikind == "sigint":
                # Ctrl-C while the code that completes the run is executing: as to *which* outcome the rest of
                # the model is a tie, but an interrupt it is (see "interrupt-lost" below)
                m["sigint_at_completion"] = True
    if cut is not None:
        # a stage starting or completing exactly at the cut is a tie
        times = [s[1] for s in m["starts"]] + [t]
        if any(x == cut[0] for x in times[1:]):
            m["tie"] = True
        m["halt"] = list(cut)
        m["starts"] = [s for s in m["starts"] if s[1] <= cut[0]]
    t_end = cut[0] if cut else t
    m["t_end"] = t_end
    for due in pending_calls:
        if due > t_end:
            m["leftover"] = True
        elif due == t_end:
            m["tie"] = True
    return m


# ------------------------------------------------------------------------------- run
def _noop():
    pass


def run_one(tape, opts):
    out = Outcome()
    stages, cleanups, cfg, events = gen(tape)
    m = model(stages, cleanups, cfg, events)
    gc_was = gc.isenabled()
    gc.disable()
    saved_sig = {s: signal.getsignal(s) for s in (signal.SIGINT, signal.SIGTERM, signal.SIGCHLD)}
    signal.signal(signal.SIGINT, signal.default_int_handler)
    sim = Sim()
    reactor = SimReactor(sim)
    world = World()
    target = TExt(world, "result")
    xlog = []
    for at, kind in events:
        sim.schedule(at, kind)

    def legacy_observer(event_dict):
        pass

    def new_observer(event):
        pass

    tw_log.addObserver(legacy_observer)
    globalLogPublisher.addObserver(new_observer)
    obs_before = (sorted(map(id, globalLogPublisher._observers)), sorted(map(id, tw_log.theLogPublisher.observers)))
    own_observers = []

    def run_stage(case, name, spec):
        xlog.append([name, sim.now])
        for s in spec["side"]:
            if s[0] == "cleanup":
                case.addCleanup(run_stage, case, s[1], cleanups[s[1]])
            elif s[0] == "leave_call":
                reactor.callLater(s[1], _noop)
            elif s[0] == "selectable":
                reactor.addReader(FakeSelectable(name))
            elif s[0] == "own_observer":
                # the test installs a log observer of its own and registers its removal as a cleanup
                def obs(event):
                    pass
                own_observers.append(obs)
                globalLogPublisher.addObserver(obs)
                case.addCleanup(globalLogPublisher.removeObserver, obs)
            elif s[0] == "log_err":
                tw_log.err(Failure(_exc(s[2] if len(s) > 2 else "error", "logged-" + spec["marker"])))
                if s[1]:
                    rt.flush_logged_errors()
            elif s[0] == "drop_failed":
                defer.fail(_exc(s[1] if len(s) > 1 else "error", "dropped-" + spec["marker"]))
            elif s[0] == "drop_failed_in_cycle":
                # dropped as well, but part of a reference cycle: only the cyclic collector frees it,
                # whenever that happens to run (here: inside the follow-up test)
                ring = [defer.fail(_exc(s[1] if len(s) > 1 else "error", "dropped-" + spec["marker"]))]
                ring.append(ring)
            elif s[0] == "interrupt":
                # the outside world exists only while the reactor is started (a stage can run
                # late, inside Spinner._clean's iterate() calls, after the handlers were restored)
                if reactor._started:
                    sim.fire(s[1])
        kind, exc, d = spec["end"][:3]
        chained = len(spec["end"]) > 3 and spec["end"][3]
        val = _RETURNS[cfg.get("value")]
        if kind == "return":
            return val
        if kind == "raise":
            raise _exc(exc, spec["marker"])
        if kind == "fired":
            return defer.succeed(val)
        if kind == "failed":
            return defer.fail(_exc(exc, spec["marker"]))
        dd = defer.Deferred()
        two = len(spec["end"]) > 4 and spec["end"][4]
        if kind == "later_fire":
            fire = (dd.callback, val)
        elif kind == "later_fail":
            fire = (dd.errback, _exc(exc, spec["marker"]))
        if kind in ("later_fire", "later_fail"):
            if two:
                reactor.callLater(d, lambda: reactor.callLater(0, *fire))
            else:
                reactor.callLater(d, *fire)
        if chained:
            return defer.succeed(val).addCallback(lambda _: dd)
        return dd

    class Scripted(testtools.TestCase):
        def setUp(self):
            super().setUp()
            return run_stage(self, "setUp", stages["setUp"])

        def test_it(self):
            return run_stage(self, "test", stages["test"])

        def tearDown(self):
            super().tearDown()
            return run_stage(self, "tearDown", stages["tearDown"])

    cls = rt.AsynchronousDeferredRunTestForBrokenTwisted if cfg["broken"] else rt.AsynchronousDeferredRunTest
    factory = cls.make_factory(reactor=reactor, timeout=cfg["timeout"], suppress_twisted_logging=cfg["suppress"],
                               store_twisted_logs=cfg["store"])
    case = Scripted("test_it", runTest=factory)
    raised = None
    try:
        try:
            case.run(target)
        except SimHang as e:
            raised = e
        except BaseException as e:   # noqa
            raised = e
        # a trivial clean test right afterwards, same reactor, same process: whatever the first one did,
        # this one completed cleanly and must be a success
        follow = None
        follow_details = []
        if raised is None:
            sim.drop_events()
            w2 = World()
            t2 = TExt(w2, "followup")

            # a stop request (Twisted's SIGINT handler queued reactor.stop, i.e. Spinner._fake_stop) that the
            # first run never got to process is still sitting in the reactor
            carried = any(getattr(c[0], "__name__", "") in ("_fake_stop", "fake_stop") for c in reactor.threadCallQueue)

            class FollowUp(testtools.TestCase):
                def test_ok(self):
                    gc.collect()      # the cyclic collector may run at any time: here it does
                    if cfg.get("followup_async"):
                        d = defer.Deferred()
                        reactor.callLater(0.25, d.callback, None)     # (well inside the shortest timeout)
                        return d

            try:
                FollowUp("test_ok", runTest=factory).run(t2)
                follow = [e.method for e in w2.events if e.method in OUTCOMES]
                follow_details = [(n, d["bytes"][:160]) for e in w2.events if e.method in OUTCOMES
                                  for n, d in ((e.data or {}).get("details") or {}).items()]
            except BaseException as e:   # noqa
                follow = ["raised:" + type(e).__name__]
        obs_after = (sorted(map(id, globalLogPublisher._observers)), sorted(map(id, tw_log.theLogPublisher.observers)))
        pending = reactor.getDelayedCalls()
        left = [s for s in reactor.getReaders() + reactor.getWriters() if s not in reactor._internalReaders]
        running = reactor.running or reactor._started
        sig_after = {s: signal.getsignal(s) for s in saved_sig}
    finally:
        try:
            tw_log.removeObserver(legacy_observer)
        except ValueError:
            pass
        try:
            globalLogPublisher.removeObserver(new_observer)
        except ValueError:
            pass
        for s, h in saved_sig.items():
            signal.signal(s, h)
        for o in own_observers:
            try:
                globalLogPublisher.removeObserver(o)
            except ValueError:
                pass
        lo = getattr(rt, "_log_observer", None)     # harness hygiene between runs, not part of any oracle
        if lo is not None:
            lo.flushErrors()
        gc.collect()
        if gc_was:
            gc.enable()

    # ------------------------------------------------------------------ oracle
    events_log = world.events
    tid = case.id()
    seq = [e.method for e in events_log if e.test_id == tid and e.method in ("startTest", "stopTest") + OUTCOMES]
    outs = [e for e in events_log if e.method in OUTCOMES]
    stops = [e for e in events_log if e.method == "stop"]
    kind = None
    if isinstance(raised, SimHang):
        out.violate("hang", "reactor-would-sleep-forever", f"{raised}; stages {stages} cfg {cfg}")
    elif raised is not None:
        out.violate("unexpected-raise", type(raised).__name__, f"run() raised {raised!r}")
    if len(seq) < 3 or seq[0] != "startTest" or seq[-1] != "stopTest" or len(outs) != 1:
        out.violate("outcome-count", f"{len(outs)}", f"result calls {seq}")
    else:
        kind = {"addSuccess": "success", "addFailure": "failure", "addError": "error", "addSkip": "skip",
                "addExpectedFailure": "xfail", "addUnexpectedSuccess": "uxsuccess"}[outs[0].method]
    # global invariants
    if pending:
        out.violate("reactor-dirty", "delayed-calls", f"{len(pending)} delayed call(s) left after the run: {pending}")
    if left:
        out.violate("reactor-dirty", "selectables", f"{left}")
    if running:
        out.violate("reactor-dirty", "still-running", "reactor.running/_started still set")
    if obs_after != obs_before:
        extra = set(obs_after[0]) - set(obs_before[0])
        own = {id(o) for o in own_observers}
        if extra and extra <= own and set(obs_before[0]) <= set(obs_after[0]) and obs_after[1] == obs_before[1]:
            # the test's own observer: its removal was a registered cleanup that never ran
            why = (m["halt"][1] if m.get("halt") else "a-tie-or-stall" if (m["tie"] or m["stalled"]) else "no-halt")
            out.violate("observers-changed", f"own-observer-left:cleanups-skipped-after-{why}",
                        f"an observer the test installed (removal registered with addCleanup) is still installed; model halt {m.get('halt')}; executed {xlog}")
        else:
            out.violate("observers-changed", "global" if obs_after[0] != obs_before[0] else "legacy",
                        f"log observers before {obs_before} after {obs_after}")
    if sig_after[signal.SIGINT] != signal.default_int_handler:
        out.violate("signal-not-restored", "SIGINT", f"{sig_after[signal.SIGINT]!r}")
    if (kind is not None and raised is None and m.get("sigint_at_completion") and not m["stalled"]
            and any(k == "sigint" for _, k in sim.fired)):      # (delivered: the stage it sits in did run, in time)
        # "an interrupt yields an error (an interrupt also asks the result to stop)", for all interrupt instants
        if kind == "success":
            out.violate("interrupt-lost", "sigint-while-the-last-stage-finishes:reported=success",
                        f"SIGINT arrived inside a stage whose completion ended the run; outcome {kind}, result.stop() called: {bool(stops)}; stages {stages} cfg {cfg} fired {sim.fired}")
        if not stops:
            out.violate("interrupt-lost", "sigint-while-the-last-stage-finishes:result-not-asked-to-stop",
                        f"SIGINT arrived inside a stage whose completion ended the run; outcome {kind}; stages {stages} cfg {cfg} fired {sim.fired}")
        out.probe("sigint-while-the-last-stage-finishes")
    if kind is not None and raised is None and m.get("interrupt_one_turn_before_completion"):
        if kind != "error":
            out.violate("interrupt-lost", f"interrupt-one-turn-before-completion:reported={kind}",
                        f"the reactor was stopped from outside one turn before the stage's Deferred fired; outcome {kind}, result.stop() called: {bool(stops)}; stages {stages} cfg {cfg} events {events} fired {sim.fired} executed {xlog}")
        if not stops:
            out.violate("interrupt-lost", "interrupt-one-turn-before-completion:result-not-asked-to-stop",
                        f"outcome {kind}; stages {stages} cfg {cfg} events {events} fired {sim.fired} executed {xlog}")
        out.probe("interrupt-one-turn-before-completion")
    if follow is not None and follow != ["addSuccess"]:
        out.violate("leak-into-next-test", "followup:" + ("carried-interrupt:" if carried else "") + ",".join(follow)[:40],
                    f"a trivial passing test run right after this one on the same reactor was reported as {follow} (details {follow_details if follow != ['addSuccess'] else ''}); first test: stages {stages} cfg {cfg} events {events} outcome {kind}")
    fired = [k for _, k in sim.fired]
    if kind is not None and m["stalled"] and raised is None:
        # a stall shifts every later timer, so the timeline model does not apply; but stalls only delay:
        # whatever makes the run unsuccessful without them still does
        t_nostall = m["t_end_chain"]
        must_fail = bool(m["raised"] or m["logged"] or m["unhandled"] or m["selectable_left"] or m["never"] or t_nostall > cfg["timeout"])
        if must_fail and kind == "success":
            out.violate("success-iff", "stalled:reported=success;must-fail",
                        f"model {m}; stages {stages}; cfg {cfg}; events {events}; executed {xlog}; fired {sim.fired}")
        out.probe("stalled-run")
    elif kind is not None and not m["tie"] and raised is None:
        clean = (not m["raised"] and m["halt"] is None and not m["leftover"] and not m["logged"] and not m["unhandled"])
        if (kind == "success") != clean:
            out.violate("success-iff", f"reported={kind};model-clean={clean}",
                        f"model {m}; stages {stages}; cfg {cfg}; events {events}; executed {xlog}")
        if m["halt"] and m["halt"][1] == "timeout" and kind != "error":
            out.violate("timeout-not-error", f"reported={kind}", f"model {m}; executed {xlog}")
        if m["halt"] and m["halt"][1] == "interrupt":
            if kind != "error":
                out.violate("interrupt-not-error", f"reported={kind}", f"model {m}; events {events}; fired {sim.fired}; executed {xlog}")
            if not stops:
                out.violate("interrupt-no-stop", "stop-not-called", f"model {m}; events {events}; fired {sim.fired}")
        # (Which non-success outcome is reported when several things went wrong is C03's business --
        # the lifecycle checks run their programs under this runner too -- C14 only fixes success,
        # timeout and interrupt.)
        # stage order and timing
        if xlog != m["starts"]:
            out.violate("stage-order", _diff(xlog, m["starts"]), f"executed {xlog} expected {m['starts']}; model {m}; stages {stages}; cfg {cfg}; events {events}")
    # ------------------------------------------------------------------ accounting
    for k in fired:
        out.fire("event:" + k.split(":")[0])
    for at, k in events:
        out.plan("event:" + k.split(":")[0])
    if any(s[0] == "interrupt" for sp_ in list(stages.values()) + list(cleanups.values()) for s in sp_["side"]):
        out.plan("event:in-stage-interrupt")
    if m["tie"]:
        out.probe("tie-run")
    if m["halt"]:
        out.probe("strict-" + m["halt"][1])
        out.fire(m["halt"][1])
    if m["leftover"]:
        out.probe("junk-left")
    if m["logged"]:
        out.probe("unflushed-logged-error")
    if m["unhandled"]:
        out.probe("unhandled-failed-deferred")
    if cleanups:
        out.probe("cleanups", len(cleanups))
    out.probe("runner:" + ("broken" if cfg["broken"] else "plain"))
    if kind:
        out.probe("outcome:" + kind)
    out.steps = sim.iterations
    out.sim_time = float(sim.now)
    out.ihash = digest_of(fired, [x[1] for x in xlog])
    out.hhash = digest_of(cfg["broken"], [(n, stages[n]["end"][0], [s[0] for s in stages[n]["side"]]) for n in stages],
                          [(c, cleanups[c]["end"][0]) for c in sorted(cleanups)], m["tie"], m["halt"] and m["halt"][1], kind)
    out.nontrivial = sim.iterations > 0 or bool(fired)
    if opts.get("want_sample"):
        out.sample = {"cfg": cfg, "stages": stages, "cleanups": cleanups, "events": events, "model": m,
                      "executed": xlog, "result_calls": [e.method for e in events_log], "events_fired": sim.fired,
                      "outcome": kind}
    return out


def _diff(got, want):
    for a, b in zip(got, want):
        if a != b:
            return "name" if a[0] != b[0] else "time"
    return "missing" if len(got) < len(want) else "extra"
