"""C15 -- Spinner.run returns the function's own result within the timeout, refuses
re-entrant / stale-junk use, and leaves reactor, reactor.stop and the signal handlers as
they were."""

import gc
import signal

from twisted.internet import defer

from testtools.twistedsupport import _spinner as sp

from simkit.driver import Outcome
from simkit.reactor import SimReactor, Sim, SimHang, FakeSelectable, GRID
from simkit.tape import digest_of

ID = "C15"
RUNS = {"quick": 200_000, "thorough": 4_000_000}
SIM_TIME_UNIT = "virtual seconds"
RULE = (
    "each run = a history of 1..4 Spinner.run calls on one Spinner over one virtual-time reactor "
    "(Twisted's ReactorBase with seconds/doIteration replaced): functions return/raise synchronously or "
    "return Deferreds that fire/fail before, at, after the timeout or never (delays and timeouts from the "
    "tie-prone grid {0,1,2,3,5}), schedule 0..3 further delayed calls, add 0..2 selectables, try re-entrant "
    "use; clear_junk() drawn between runs; pre-installed SIGINT/SIGTERM/SIGCHLD handlers drawn; external "
    "events (SIGINT, SIGTERM, reactor.stop) at drawn virtual instants or inside the function; distinct = "
    "digest of the history's (function kind, delay vs timeout relation, event relation, result class) "
    "sequence; non-trivial = the reactor actually iterated (an asynchronous function) or an event fired"
)
REAL_STUB = {
    "real": ["Spinner (run, _clean, _save/_restore_signals, not_reentrant, junk handling)", "twisted Deferred",
             "twisted ReactorBase: delayed-call heap, runUntilCurrent, startup/shutdown events, crash/stop state, callFromThread queue, sigInt/sigTerm, _WithSignalHandling.install (real signal.signal)"],
    "stub": ["reactor.seconds / doIteration (virtual time, no descriptors)", "selectables (FakeSelectable)",
             "SIGCHLD handling (installs a handler at start-up, SIG_DFL at uninstall)",
             "signal *delivery* (the simulator calls the installed handler synchronously)"],
}
ASSUMPTIONS = [
    "the real global reactor is not covered: wall-clock timing does not replay",
    "ties (Deferred fires exactly at the timeout; an outside stop request at the completion instant) accept either result",
    "a stop requested from inside the function itself (reactor.stop(), or a signal Twisted turns into a queued reactor.stop) precedes the completion of its callback chain: NoResultError, also for a synchronous function",
    "a stop request that an earlier call left unprocessed in the reactor is not a request to stop this call",
    "a SIGINT is a stop request only when the pre-installed SIGINT handler is default_int_handler (otherwise Twisted leaves the user's handler in place)",
    "Spinner's own cancelled timeout call may or may not be reported as junk",
]

KINDS = ("ret", "raise", "fired", "failed", "later_fire", "later_fail", "never")
SYNC = ("ret", "raise", "fired", "failed")


def _user_handler(signum, frame):
    pass


def gen(tape):
    pre = {
        "SIGINT": tape.weighted("config", [(4, "default_int"), (1, "ign"), (2, "callable")], "pre-int"),
        "SIGTERM": tape.weighted("config", [(3, "dfl"), (1, "ign"), (2, "callable")], "pre-term"),
        "SIGCHLD": tape.weighted("config", [(3, "dfl"), (1, "ign"), (2, "callable")], "pre-chld"),
    }
    debug = tape.chance("config", 1, 6, "debug")
    n = 1 + tape.draw("program", 4, "nruns")
    runs = []
    for r in range(n):
        spec = {
            "timeout": tape.weighted("program", [(1, 0), (3, 1), (4, 2), (4, 3), (3, 5)], "timeout"),
            "kind": tape.choice("program", KINDS, "fn-kind"),
            "delay": tape.choice("program", GRID, "delay"),
            "extras": [tape.choice("program", GRID + (8,), "extra-delay") for _ in range(tape.draw("program", 4, "n-extras"))],
            "selectables": tape.draw("program", 3, "n-selectables"),
            "reentrant": tape.weighted("program", [(9, None), (1, "in-function"), (1, "other-spinner"), (1, "after-fire"), (1, "twice")], "reentrant"),
            "clear_junk_before": tape.chance("program", 3, 4, "clear-junk"),
            "inner": None,
            "events": [],
        }
        if tape.chance("faults", 1, 8, "inner-interrupt"):
            spec["inner"] = tape.choice("faults", ("stop", "sigint", "sigterm"), "inner-kind")
        for _ in range(tape.weighted("faults", [(5, 0), (3, 1), (1, 2)], "n-events")):
            spec["events"].append([tape.choice("faults", GRID, "event-time"),
                                   tape.choice("faults", ("stop", "sigint", "sigterm"), "event-kind")])
        if r > 0:
            # one of this call's delayed calls fires a Deferred that an *earlier* call left unfired (it timed
            # out or was interrupted): a late result of that call, none of this one's business
            fo = tape.weighted("program", [(6, None), (1, "value"), (1, "fail")], "fire-earlier-calls-deferred")
            if fo:
                if not spec["extras"]:
                    spec["extras"].append(tape.choice("program", GRID, "extra-delay"))
                spec["fire_old"] = [fo, tape.draw("program", len(spec["extras"]), "which-extra")]
            # ... and the call may be made through another Spinner on the same reactor
            spec["other_spinner"] = tape.chance("program", 1, 6, "another-spinner")
        if tape.chance("faults", 1, 5, "stall"):
            # clock jump: the reactor finds several timed calls due at once
            spec["events"].append([tape.choice("faults", (0, 1, 2), "stall-at"), "stall:%d" % tape.choice("faults", (1, 2, 4, 9), "stall-by")])
        runs.append(spec)
    return pre, debug, runs


def _install_pre(pre):
    table = {
        "default_int": signal.default_int_handler, "dfl": signal.SIG_DFL, "ign": signal.SIG_IGN,
        "callable": _user_handler,
    }
    saved = {}
    for name, what in pre.items():
        sig = getattr(signal, name)
        saved[sig] = signal.getsignal(sig)
        signal.signal(sig, table[what])
    return saved


def run_one(tape, opts):
    out = Outcome()
    pre, debug, runs = gen(tape)
    gc_was = gc.isenabled()
    gc.disable()
    saved = _install_pre(pre)
    sim = Sim()
    reactor = SimReactor(sim)
    spinner = sp.Spinner(reactor, debug=debug)
    hist = []
    stop_before = reactor.stop
    try:
        junk_model = False     # is there uncleared junk according to the model?
        for r, spec in enumerate(runs):
            if spec.get("other_spinner"):
                rec = _one_call(out, r, spec, pre, sim, reactor, sp.Spinner(reactor, debug=debug), stop_before, False, hist)
            else:
                rec = _one_call(out, r, spec, pre, sim, reactor, spinner, stop_before, junk_model, hist)
                junk_model = rec["junk_after"]
            hist.append(rec)
            if rec.get("fatal"):
                break
    finally:
        for sig, h in saved.items():
            signal.signal(sig, h)
        if gc_was:
            gc.enable()
    for rec in hist:
        for k in rec["fired"]:
            out.fire("event:" + k.split(":")[0])
        for at, kind in rec["spec"]["events"]:
            out.plan("event:" + kind.split(":")[0])
        if rec["spec"]["inner"]:
            out.plan("event:" + rec["spec"]["inner"])
        out.probe("result:" + rec["got_class"])
        if rec.get("tie"):
            out.probe("tie-at-completion")
        if rec["spec"]["kind"] in ("later_fire", "later_fail") and rec["spec"]["delay"] == rec["spec"]["timeout"]:
            out.probe("deferred-fires-exactly-at-timeout")
        if rec.get("junk_n"):
            out.probe("junk-reported", rec["junk_n"])
        if rec.get("guard"):
            out.probe("guard:" + rec["guard"])
        if rec.get("carried"):
            out.probe("stop-request-carried-over-from-earlier-call")
        if rec.get("fired_old"):
            out.probe("earlier-calls-deferred-fired-during-this-call")
        if rec["spec"].get("other_spinner"):
            out.probe("call-through-another-spinner")
    out.steps = sim.iterations
    out.sim_time = float(sim.now)
    out.ihash = digest_of([(rec["fired"]) for rec in hist])
    out.hhash = digest_of([(rec["spec"]["kind"], _rel(rec["spec"]["delay"], rec["spec"]["timeout"]),
                            rec["rel_event"], rec["got_class"], rec.get("guard")) for rec in hist], sorted(pre.items()))
    out.nontrivial = sim.iterations > 0 or any(rec["fired"] for rec in hist)
    if opts.get("want_sample"):
        out.sample = {"pre_installed": pre, "debug": debug,
                      "history": [{"spec": rec["spec"], "allowed": sorted(rec["allowed"]), "got": rec["got"],
                                   "events_fired": rec["fired"], "junk": rec.get("junk_n"), "guard": rec.get("guard")} for rec in hist]}
    return out


def _rel(a, b):
    return "<" if a < b else ">" if a > b else "="


def _one_call(out, r, spec, pre, sim, reactor, spinner, stop_before, junk_model, hist):
    rec = {"spec": spec, "fired": [], "allowed": set(), "got": None, "got_class": "?", "rel_event": None,
           "junk_after": junk_model, "r": r}
    if spec["clear_junk_before"]:
        spinner.clear_junk()
        junk_model = False
    t0 = sim.now
    value = ("value", r)
    exc = RuntimeError(f"own-exception-{r}")
    extras_fired = []
    created = {"extras": [], "selectables": [], "fire_call": None}
    inner_obs = {}
    called = []

    def reenter(which):
        nested = []
        try:
            which.run(1, lambda: nested.append(1))
            inner_obs["reentry"] = "returned"
        except sp.ReentryError:
            inner_obs["reentry"] = "ReentryError"
        except BaseException as e:   # noqa
            inner_obs["reentry"] = type(e).__name__
        inner_obs["nested_called"] = bool(nested)

    def fire_old(i):
        extras_fired.append(i)
        for h in reversed(hist):
            od = h.get("deferred")
            if od is not None and not od.called:
                rec["fired_old"] = True
                if spec["fire_old"][0] == "value":
                    od.callback(("value", "late result of call", h["r"]))
                else:
                    od.errback(RuntimeError(f"own-exception-{h['r']}-late"))
                    od.addErrback(lambda f: None)     # (whoever fires it late also deals with the failure)
                return

    def function():
        called.append(sim.now)
        for i, d in enumerate(spec["extras"]):
            if spec.get("fire_old") and spec["fire_old"][1] == i:
                created["extras"].append(reactor.callLater(d, fire_old, i))
            else:
                created["extras"].append(reactor.callLater(d, extras_fired.append, i))
        for i in range(spec["selectables"]):
            s = FakeSelectable(f"sel{r}.{i}")
            created["selectables"].append(s)
            reactor.addReader(s)
        if spec["reentrant"] in ("in-function", "other-spinner"):
            reenter(spinner if spec["reentrant"] == "in-function" else sp.Spinner(reactor))
        elif spec["reentrant"] == "twice":
            reenter(spinner)
            first = dict(inner_obs)
            reenter(spinner)      # surviving a refusal must not open the door
            if first.get("nested_called") or first.get("reentry") != "ReentryError":
                inner_obs.update(first)
        if spec["inner"]:
            sim.fire(spec["inner"])
        k = spec["kind"]
        if k == "ret":
            return value
        if k == "raise":
            raise exc
        if k == "fired":
            return defer.succeed(value)
        if k == "failed":
            return defer.fail(exc)
        d = defer.Deferred()
        rec["deferred"] = d
        if k == "later_fire" and spec["reentrant"] == "after-fire":
            def fire_then_reenter():
                d.callback(value)
                reenter(spinner)     # the Deferred has fired, run() is still on the stack
            created["fire_call"] = reactor.callLater(spec["delay"], fire_then_reenter)
        elif k == "later_fire":
            created["fire_call"] = reactor.callLater(spec["delay"], d.callback, value)
        elif k == "later_fail":
            created["fire_call"] = reactor.callLater(spec["delay"], d.errback, exc)
        return d

    for at, kind in spec["events"]:
        sim.schedule(t0 + at, kind)
    # a stop request that Twisted queued (callFromThread) during an earlier call whose main
    # loop never got to process it is still pending in the reactor.  It was a request to stop
    # *that* call: nobody has asked for this one to be stopped (until audit round 5 the model took
    # the carried-over request for a stop "at instant 0" of this call - DESIGN 9.9)
    carried_stop = bool(reactor.threadCallQueue)
    nfired0 = len(sim.fired)
    sig_before = {s: signal.getsignal(getattr(signal, s)) for s in ("SIGINT", "SIGTERM", "SIGCHLD")}
    got = None
    try:
        v = spinner.run(spec["timeout"], function)
        got = ("value", v)
    except SimHang as e:
        got = ("hang", str(e))
    except BaseException as e:   # noqa: whatever run() raises is the observation
        got = ("exc", e)
    sim.drop_events()
    rec["fired"] = [k for _, k in sim.fired[nfired0:]]

    # ---------------------------------------------------------------- model
    allowed = set()
    if junk_model:
        allowed = {"StaleJunkError"}
        rec["guard"] = "stale-junk"
    else:
        k = spec["kind"]
        own = "own-value" if k in ("ret", "fired", "later_fire") else "own-exc"
        stop_int = pre["SIGINT"] == "default_int"
        times = []
        stalled = any(kind.startswith("stall") for at, kind in spec["events"])
        for at, kind in spec["events"]:
            if kind.startswith("stall") or (kind == "sigint" and not stop_int):
                continue
            times.append(at)
        inner_stop = spec["inner"] and (spec["inner"] != "sigint" or stop_int)
        if k in SYNC:
            # a stop requested from inside the function (reactor.stop() called, or a signal that Twisted turns
            # into a queued reactor.stop) precedes the completion of the function's callback chain: "interrupted
            # before the Deferred returned by 'function' has completed its callback chain" (run's docstring)
            allowed = {"NoResultError"} if inner_stop else {own}
            rec["rel_event"] = "sync-stop-inside" if inner_stop else "sync"
        else:
            T = spec["timeout"]
            d = spec["delay"] if k != "never" else None
            if d is None or d > T:
                base, tc = {"TimeoutError"}, T
            elif d < T:
                base, tc = {own}, d
            else:
                base, tc = {own, "TimeoutError"}, T
                rec["tie"] = True
            if inner_stop:
                times.append(0)
            if carried_stop:
                rec["carried"] = True
            te = min(times) if times else None
            if stalled and te is not None:
                # a clock jump may carry the run past a stop request and a completion together
                allowed = set(base) | {"NoResultError"}
                rec["rel_event"] = "stalled"
                rec["tie"] = True
            elif te is None or te > tc:
                allowed = set(base)
                rec["rel_event"] = "none" if te is None else ">"
            elif te < tc:
                allowed = {"NoResultError"}
                rec["rel_event"] = "<"
            else:
                allowed = set(base) | {"NoResultError"}
                rec["rel_event"] = "="
                rec["tie"] = True
    rec["allowed"] = allowed

    # ---------------------------------------------------------------- classify what we got
    cls = "?"
    if got[0] == "value":
        cls = "own-value" if got[1] == value else "stale-value" if isinstance(got[1], tuple) and got[1][:1] == ("value",) else "other-value"
    elif got[0] == "hang":
        cls = "hang"
    else:
        e = got[1]
        if e is exc:
            cls = "own-exc"
        elif isinstance(e, sp.TimeoutError):
            cls = "TimeoutError"
        elif isinstance(e, sp.NoResultError):
            cls = "NoResultError"
        elif isinstance(e, sp.StaleJunkError):
            cls = "StaleJunkError"
        elif isinstance(e, sp.ReentryError):
            cls = "ReentryError"
        elif isinstance(e, RuntimeError) and str(e).startswith("own-exception-"):
            cls = "stale-exc"
        else:
            cls = "other-exc:" + type(e).__name__
    rec["got_class"] = cls
    rec["got"] = cls if got[0] != "exc" else f"{cls} ({got[1]!r})"[:160]
    if cls == "TimeoutError" and "TimeoutError" in allowed:
        # it must be this call's timeout, not an earlier one's
        if f"{spec['timeout']} seconds" not in str(got[1]):
            cls = "stale-exc"
            rec["got_class"] = cls
    if cls == "hang":
        out.violate("hang", spec["kind"], f"call {r}: {got[1]}; spec {spec}")
        rec["fatal"] = True
        return rec
    if cls not in allowed:
        if cls.startswith("stale"):
            prev = [h["got_class"] for h in hist]
            out.violate("stale-result", f"{cls}-after-" + (prev[-1] if prev else "nothing"),
                        f"call {r} ({spec['kind']} delay={spec['delay']} timeout={spec['timeout']}) returned an earlier call's result {got[1]!r}; allowed {sorted(allowed)}; earlier results {prev}")
        elif junk_model:
            out.violate("guard-missing", "stale-junk", f"call {r} ran although junk from the previous run was not cleared: got {rec['got']}")
        else:
            out.violate("wrong-result", f"{cls}-not-in-" + "/".join(sorted(allowed)),
                        f"call {r}: spec {spec} pre {pre} events fired {rec['fired']}: got {rec['got']}, allowed {sorted(allowed)}")
    if junk_model:
        if called:
            out.violate("guard-missing", "function-called-despite-junk", f"call {r}")
        rec["junk_after"] = True
        return rec
    if spec["reentrant"] and "reentry" in inner_obs:
        rec["guard"] = "reentry:" + spec["reentrant"]
        if inner_obs.get("nested_called") or inner_obs["reentry"] == "returned":
            out.violate("guard-missing", "reentry:" + spec["reentrant"],
                        f"call {r}: a nested Spinner.run ({spec['reentrant']}) was not refused: {inner_obs}")
        elif spec["reentrant"] != "other-spinner" and inner_obs["reentry"] != "ReentryError":
            out.violate("guard-missing", "reentry:" + spec["reentrant"] + ":wrong-exception", f"call {r}: {inner_obs}")

    # ---------------------------------------------------------------- invariants on return / raise
    if reactor.running or reactor._started:
        out.violate("reactor-dirty", "still-running", f"call {r}: running={reactor.running} started={reactor._started}")
    pending = reactor.getDelayedCalls()
    if pending:
        out.violate("reactor-dirty", "delayed-calls", f"call {r}: {len(pending)} delayed call(s) left: {pending}")
    left = [s for s in reactor.getReaders() + reactor.getWriters() if s not in reactor._internalReaders]
    if left:
        out.violate("reactor-dirty", "selectables", f"call {r}: {left}")
    junk = list(spinner.get_junk())
    rec["junk_n"] = len(junk)
    for i, dc in enumerate(created["extras"]):
        if i not in extras_fired:
            if dc not in junk:
                out.violate("junk-unreported", "delayed-call", f"call {r}: extra call {i} (delay {spec['extras'][i]}) neither ran nor is in junk")
            if dc.active():
                out.violate("reactor-dirty", "leftover-not-cancelled", f"call {r}: extra call {i} still active")
    fc = created["fire_call"]
    if fc is not None and fc.active():
        out.violate("reactor-dirty", "leftover-not-cancelled", f"call {r}: the deferred's own delayed call is still active")
    for s in created["selectables"]:
        if s not in junk:
            out.violate("junk-unreported", "selectable", f"call {r}: {s} not in junk {junk}")
    rec["junk_after"] = bool(junk)
    # nothing is reported as junk that was not left over
    legit = [dc for i, dc in enumerate(created["extras"]) if i not in extras_fired] + created["selectables"]
    if fc is not None:
        legit.append(fc)
    legit.append(getattr(spinner, "_timeout_call", None))   # Spinner's own timeout call (cancelled) may be listed
    for j in junk:
        if not any(j is x for x in legit):
            out.violate("junk-unreported", "spurious-junk", f"call {r}: {j!r} reported as junk but it was not left over")
    tc_junk = any(j is getattr(spinner, "_timeout_call", None) for j in junk)
    if tc_junk and cls not in ("NoResultError",):
        out.violate("junk-unreported", "timeout-call-left-pending", f"call {r}: result {cls} but Spinner's timeout call was still pending at clean-up")
    if reactor.stop != stop_before:
        out.violate("stop-not-restored", "reactor.stop", f"call {r}: reactor.stop is {reactor.stop!r}")
    for s, h in sig_before.items():
        now = signal.getsignal(getattr(signal, s))
        if now != h:
            out.violate("signal-not-restored", s, f"call {r}: {s} handler is {now!r}, was {h!r} (pre-installed {pre})")
    return rec
