"""C05 -- all details and every traceback reach the result; none is dropped or overwritten;
bytes are those current at reporting time; on-exception handlers run once per exception,
before the outcome."""

from simkit.driver import Outcome
from simkit.program import Cfg, gen_program
from simkit import lifecycle as lc

ID = "C05"
RUNS = {"quick": 280_000, "thorough": 3_000_000}
SIM_TIME_UNIT = "scripted user operations executed"
RULE = (
    "each run = one generated program whose stages attach lazy details under an 8-name alphabet that "
    "collides with generated names (traceback, traceback-1, Failed expectation, ...), mutate the source "
    "behind a detail after attaching it, use fixtures carrying details (setUp ok or failing), mismatch with "
    "details, raise 0..k exceptions incl. MultipleExceptions and expected failures, and register "
    "addOnException handlers; payload bytes are unique so a payload identifies its source; distinct = digest "
    "of (raised kinds+stages, executed-op shape, outcome); non-trivial = >=1 detail source and >=1 exception"
)
REAL_STUB = {
    "real": ["TestCase.addDetail/addDetailUniqueName/_report_traceback/onException/useFixture/gather_details",
             "RunTest._got_user_exception (MultipleExceptions unpacking)", "testtools.content.Content",
             "fixtures.Fixture"],
    "stub": ["user stages (scripted ops)", "extended recording target that snapshots detail bytes at the outcome call"],
}
ASSUMPTIONS = [
    "a user addDetail() under a name that already holds a generated detail is the user's own overwrite and exempts that generated detail",
    "the name 'reason' is never used for user details",
    "the forced failure raised by the framework may or may not be passed to on-exception handlers",
]


def run_one(tape, opts):
    out = Outcome()
    c = Cfg()
    c.raise_num, c.raise_den = (1, 3) if tape.chance("config", 1, 2, "fault-rate") else (1, 5)
    c.max_ops = 1 + tape.draw("config", 3, "max-ops")
    c.patches = False
    c.decorators = tape.chance("config", 1, 2, "decorators")
    c.handlers = False
    c.kinds = tuple(k for k in c.kinds if k != "user")
    flavour = tape.choice("config", ("extended", "testtools", "none"), "flavour")
    if opts.get("tier") == "thorough":
        c.max_ops += 2
        c.max_cleanups += 2
    runner = lc.draw_runner(tape)
    if runner != "plain":
        c.skip_decorators = False     # what @skip does to setUp/tearDown under the Twisted runners is not in any property
    prog = gen_program(tape, c)
    # the same test object may be run again: what was registered while it ran (on-exception handlers,
    # details) belongs to that run only
    nruns = 2 if tape.chance("config", 1, 4, "run-twice") else 1
    sim = lc.simulate(prog, flavour, nruns=nruns, runner=runner)
    rr = sim.runs[0]
    lc.oracle_details(sim, rr, out)
    for later in sim.runs[1:]:
        before = len(out.violations)
        lc.oracle_details(sim, later, out)
        for v in out.violations[before:]:
            v.key += ":rerun"
        out.probe("second-run-of-the-same-object")
    m = sim.model
    for r in m.R:
        out.fire("raise:" + r.kind)
    out.plan("user-exception")
    if m.user_details:
        out.probe("user-detail", len(m.user_details))
    if any(n in ("traceback", "traceback-1", "Failed expectation", "Failed expectation-1") for n in m.user_details):
        out.probe("user-detail-with-generated-name")
    if m.fx_payloads:
        out.probe("fixture-detail", len(m.fx_payloads))
    if m.mm_payloads:
        out.probe("mismatch-detail", len(m.mm_payloads))
    if any(e[0] == "op" for e in m.log) and any(it["op"][0] == "setcell" for lst in prog["stages"].values() for it in lst):
        out.probe("source-mutated-after-attach")
    out.nontrivial = bool(m.R) and bool(m.user_details or m.fx_payloads or m.mm_payloads)
    out.steps = len(rr.exec_log)
    out.sim_time = float(out.steps)
    out.hhash = lc.history_hash(sim)
    out.probe("runner:" + runner)
    if opts.get("want_sample"):
        out.sample = lc.sample_of(sim)
    return out
