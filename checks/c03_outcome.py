"""C03 -- the reported outcome is sound: success means nothing raised; a single exception
maps by handler order; a failure or error is never downgraded by what a later stage raises."""

from simkit.driver import Outcome
from simkit.program import Cfg, gen_program
from simkit import lifecycle as lc

ID = "C03"
RUNS = {"quick": 280_000, "thorough": 4_000_000}
SIM_TIME_UNIT = "scripted user operations executed"
RULE = (
    "each run = one generated program x fault plan, weighted toward ordered pairs/triples of (exception "
    "kind, stage) incl. user exception classes with handlers inserted anywhere in exception_handlers and "
    "subclasses of SkipTest/AssertionError, expectThat mismatches and force_failure; targets: the real "
    "testtools.TestResult (for wasSuccessful) and an extended recorder; the expected outcome is computed by "
    "the model from the program's handler table, not from testtools; distinct = digest of (raised "
    "kinds+stages, force flag, outcome); non-trivial = >=2 exceptions raised in one run"
)
REAL_STUB = {
    "real": ["TestCase.run", "RunTest incl. choice of the reported exception", "TestCase.exception_handlers",
             "expectThat/force_failure", "testtools.TestResult.wasSuccessful"],
    "stub": ["user stages (scripted ops)", "extended recording target"],
}
ASSUMPTIONS = [
    "nothing is asserted about which of several failing exceptions is chosen, only that the outcome is not a pass",
    "user handlers report failure/error/skip (a user handler calling addSuccess would break the property by itself)",
]


def run_one(tape, opts):
    out = Outcome()
    c = Cfg()
    c.raise_num, c.raise_den = (1, 2) if tape.chance("config", 2, 3, "fault-rate") else (1, 4)
    c.max_ops = tape.draw("config", 3, "max-ops")
    c.details = False
    c.patches = False
    c.fixtures = tape.chance("config", 1, 4, "fixtures")
    c.onexc = False
    c.assert_fn = False
    flavour = tape.choice("config", ("testtools", "extended", "none", "stream"), "flavour")
    if opts.get("tier") == "thorough":
        c.max_ops += 2
        c.max_cleanups += 2
    runner = lc.draw_runner(tape)
    if runner != "plain":
        c.skip_decorators = False     # what @skip does to setUp/tearDown under the Twisted runners is not in any property
    prog = gen_program(tape, c)
    sim = lc.simulate(prog, flavour, runner=runner)
    rr = sim.runs[0]
    lc.oracle_outcome(sim, rr, out)
    m = sim.model
    for r in m.R:
        out.fire("raise:" + r.kind)
    if m.force:
        out.fire("forced-failure")
    out.plan("user-exception")
    if prog["handlers"]:
        out.probe("user-handler-installed")
    if rr.user_handler_log:
        out.probe("user-handler-selected")
    effs = [m.outcome_of(r) for r in m.R]
    if any(e in ("failure", "error") for e in effs) and effs and effs[-1] in ("skip", "xfail"):
        out.probe("benign-after-failing")
    out.nontrivial = len(m.R) >= 2
    out.steps = len(rr.exec_log)
    out.sim_time = float(out.steps)
    out.hhash = lc.history_hash(sim)
    out.probe("runner:" + runner)
    if opts.get("want_sample"):
        out.sample = lc.sample_of(sim)
    return out
