"""C13 -- ConcurrentTestSuite / ConcurrentStreamTestSuite run every sub-suite once in its
own thread, deliver every event exactly once in worker order, report crashed runners as
'broken-runner' tests, stop all workers and propagate when run() is aborted, and terminate."""

import os

import testtools
from testtools import testsuite as _ts
from testtools.testresult import real as _real

from simkit.driver import Outcome
from simkit.sched import Scheduler, SimQueue, threading_shim, draw_policy, DONE, NEW
from simkit.targets import World, TExt, TStream, FaultPlan, TargetFault, OUTCOMES
from simkit.tape import digest_of
from simkit import vclock

ID = "C13"
RUNS = {"quick": 70_000, "thorough": 800_000}
MAX_BATCH = 800
SIM_TIME_UNIT = "virtual milliseconds (1 per scheduler step)"
RULE = (
    "each run = the real ConcurrentTestSuite.run or ConcurrentStreamTestSuite.run on simulated thread T0 "
    "with threading.Thread/Semaphore and Queue rebound to simulator objects; 1..4 workers from a scripted "
    "make_tests generator (lists of PlaceHolders/real TestCases honouring shouldStop, raw status emitters, "
    "runners that raise after j events) under a seeded schedule (random walk / PCT / sticky; traced runs add "
    "line-level pre-emption in testsuite.py and real.py) and a fault plan (caller's result raises at its k-th "
    "event, make_tests raises after k sub-suites, wrap_result raises, KeyboardInterrupt in T0's k-th "
    "queue.get()/join()/Thread.start()); in a third of the runs the same suite object is then run again with fresh "
    "sub-suites and no faults; distinct = digest of contended scheduling decisions + abstract history; "
    "non-trivial = >=1 scheduling point with >1 enabled thread"
)
REAL_STUB = {
    "real": ["ConcurrentTestSuite.run/_run_test", "ConcurrentStreamTestSuite.run/_run_test",
             "ThreadsafeForwardingResult", "ExtendedToStreamDecorator", "TimestampingStreamResult", "StreamToQueue",
             "PlaceHolder/ErrorHolder", "testtools.TestCase (some workers)"],
    "stub": ["threads, semaphore, queue (simkit.sched)", "caller's result (recording target with fault plan)",
             "make_tests / sub-suites (scripted)", "wall clock (virtual)"],
}
ASSUMPTIONS = [
    "workers honour shouldStop between tests, as the docstrings require of make_tests",
    "at most one worker has the route code None (events are attributed to workers by route code)",
    "'told to stop' is read at the instant run() unwinds and again once every thread has finished (a delivered stop must still be readable)",
]

REAL_PY = os.path.realpath(_real.__file__)
# real.py resolves a circular import lazily (module global PlaceHolder): do it now, so that the
# line events seen by traced runs do not depend on what ran earlier in this process
_real._TestRecord.create("warm-up", None).to_test_case()
TS_PY = os.path.realpath(_ts.__file__)
PH_OUTCOMES = ("addSuccess", "addFailure", "addError", "addSkip", "addExpectedFailure", "addUnexpectedSuccess")
STATUS_OF = {"addSuccess": "success", "addFailure": "fail", "addError": "fail", "addSkip": "skip",
             "addExpectedFailure": "xfail", "addUnexpectedSuccess": "uxsuccess"}


class _PassFail(testtools.TestCase):
    def test_pass(self):
        pass

    def test_fail(self):
        self.fail("scripted failure")


class InjectedError(Exception):
    pass


class InjectedBase(BaseException):
    """A runner may die of something that is not an Exception (a test that calls sys.exit(), say)."""


CRASH = {None: InjectedError, "exception": InjectedError, "sysexit": SystemExit, "base": InjectedBase}


class Worker:
    """A scripted sub-suite."""

    def __init__(self, idx, spec, sched):
        self.idx = idx
        self.spec = spec
        self.sched = sched
        self.run_threads = []
        self.result = None
        self.emitted = []     # what the worker did, in order
        self.crashed = False

    def countTestCases(self):
        return len(self.spec["items"])

    def __repr__(self):
        return f"<Worker {self.idx}>"

    def run(self, result):
        self.run_threads.append(self.sched.current_name())
        self.result = result
        spec = self.spec
        for i, item in enumerate(spec["items"]):
            if spec["crash_after"] is not None and i == spec["crash_after"]:
                self.crashed = True
                raise CRASH[spec.get("crash_kind")](f"runner {self.idx} crashed")
            if spec["kind"] != "raw" and getattr(result, "shouldStop", False):
                self.emitted.append(("stopped-early", i))
                return
            tid = f"w{self.idx}.t{i}"
            if spec["kind"] == "raw":
                kw = dict(item)
                self.emitted.append(("status", kw))
                result.status(**kw)
            elif item[0] == "ph":
                self.emitted.append(("test", tid, item[1]))
                testtools.PlaceHolder(tid, outcome=item[1]).run(result)
            else:
                self.emitted.append(("test", tid, "addSuccess" if item[1] == "test_pass" else "addFailure"))
                testtools.clone_test_with_new_id(_PassFail(item[1]), tid).run(result)
        if spec["crash_after"] is not None and spec["crash_after"] >= len(spec["items"]):
            self.crashed = True
            raise CRASH[spec.get("crash_kind")](f"runner {self.idx} crashed at the end")


class EqualWorker(Worker):
    """Sub-suites that compare (and hash) equal to one another, as two unittest.TestCase objects for
    the same method do: they are still distinct sub-suites."""

    def __eq__(self, other):
        return isinstance(other, EqualWorker)

    def __hash__(self):
        return 7


class UnhashableWorker(Worker):
    """A sub-suite that defines __eq__ and therefore has no hash, as a plain unittest.TestSuite."""

    def __eq__(self, other):
        return self is other

    __hash__ = None


WORKER_CLASSES = {None: Worker, "equal": EqualWorker, "unhashable": UnhashableWorker}


def gen(tape, big=False):
    stream_suite = tape.chance("config", 1, 2, "stream-suite")
    n = 1 + tape.draw("program", 6 if big else 4, "nworkers")
    workers = []
    for w in range(n):
        kinds = ("list", "list", "raw") if stream_suite else ("list",)
        kind = tape.choice("program", kinds, "worker-kind")
        nitems = tape.draw("program", 6 if big else 4, "nitems")
        items = []
        for i in range(nitems):
            if kind == "raw":
                ev = {"test_id": f"w{w}.r{i}",
                      "test_status": tape.choice("program", (None, "inprogress", "success", "fail", "skip", "exists"), "status")}
                if tape.chance("program", 1, 3, "file"):
                    ev["file_name"] = "f"
                    ev["file_bytes"] = b"x%d" % i
                    ev["eof"] = tape.chance("program", 1, 2, "eof")
                if tape.chance("program", 1, 4, "own-route"):
                    ev["route_code"] = "sub"
                if tape.chance("program", 1, 3, "own-timestamp"):
                    ev["timestamp"] = ("explicit", w * 10 + i)
                elif tape.chance("program", 1, 4, "timestamp-keyword-none"):
                    ev["timestamp"] = None      # "no timestamp" spelled out, as a relayed event dict has it
                if tape.chance("program", 1, 4, "tags"):
                    ev["test_tags"] = ["t%d" % i]
                items.append(ev)
            elif tape.chance("program", 1, 4, "real-testcase"):
                items.append(["tc", tape.choice("program", ("test_pass", "test_fail"), "method")])
            else:
                items.append(["ph", tape.choice("program", PH_OUTCOMES, "outcome")])
        crash = None
        crash_kind = None
        if tape.chance("faults", 1, 5, "runner-crashes"):
            crash = tape.draw("faults", nitems + 1, "crash-after")
            crash_kind = tape.weighted("faults", [(4, "exception"), (1, "sysexit"), (1, "base")], "crash-kind")
        ident = tape.weighted("program", [(8, None), (2, "equal"), (1, "unhashable")], "sub-suite-identity")
        route = f"rc{w}"
        if stream_suite and not any(x["route"] is None for x in workers) and tape.chance("program", 1, 6, "route-code-none"):
            route = None      # "route_code is either None or a unicode string" (make_tests' contract)
        workers.append({"kind": kind, "items": items, "crash_after": crash, "crash_kind": crash_kind, "route": route, "identity": ident})
    faults = {"result": {}, "make_tests_after": None, "wrap_raises_at": None, "interrupt": None}
    f = tape.draw("faults", 10, "abort-fault")
    if f == 1:
        faults["make_tests_after"] = tape.draw("faults", n + 1, "make-tests-k")
    elif f == 2 and not stream_suite:
        faults["wrap_raises_at"] = tape.draw("faults", n, "wrap-k")
    elif f == 3:
        faults["interrupt"] = [tape.choice("faults", ("get", "join", "start"), "interrupt-prim"), 1 + tape.draw("faults", 4, "interrupt-k")]
    elif f in (4, 5):
        meths = ("status",) if stream_suite else ("startTest", "stopTest", "time", "tags", "stop") + PH_OUTCOMES
        faults["result"] = {tape.choice("faults", meths, "result-fault-method"): [1 + tape.draw("faults", 8, "result-fault-k")]}
    return stream_suite, workers, faults


def gen_second(tape, stream_suite):
    """Worker specs for a second, fault-free run() on the same suite object."""
    n = 1 + tape.draw("program", 3, "second-nworkers")
    specs = []
    for w in range(n):
        nitems = tape.draw("program", 3, "second-nitems")
        items = [["ph", tape.choice("program", PH_OUTCOMES, "second-outcome")] for _ in range(nitems)]
        specs.append({"kind": "list", "items": items, "crash_after": None, "route": f"rc{w}"})
    return specs


class StopRecorder:
    """wrap_result product: forwards everything, remembers stop() calls."""

    def __init__(self, inner, log, idx):
        self._inner = inner
        self._log = log
        self._idx = idx

    def stop(self):
        self._log.append(self._idx)
        return self._inner.stop()

    def __getattr__(self, name):
        return getattr(self._inner, name)


def run_one(tape, opts):
    out = Outcome()
    stream_suite, wspecs, faults = gen(tape, big=opts.get("tier") == "thorough")
    traced = tape.chance("config", 1, 4 if opts.get("tier") == "thorough" else 12, "traced")   # line-level pre-emption
    failfast = (not stream_suite) and tape.chance("config", 1, 4, "caller-result-failfast")
    # the same suite object is run a second time (fresh sub-suites, no faults): nothing of the first
    # run -- however it ended -- may leak into it
    wspecs2 = gen_second(tape, stream_suite) if tape.chance("config", 1, 3, "second-run") else None
    nitems = sum(len(w["items"]) + 2 for w in wspecs) + sum(len(w["items"]) + 2 for w in wspecs2 or ())
    est = nitems * (60 if traced else 14) + 20
    if traced:
        policy = "pct"
        d = tape.draw("config", 4, "pct-depth")
        points = tuple(tape.draw("config", max(2, est), "pct-point") for _ in range(d))
    else:
        policy, points = draw_policy(tape, est)
    clock = vclock.VClock()
    vclock.install(clock)
    world = World()
    sched = Scheduler(tape, clock=clock, policy=policy, pct_points=points, step_cap=200 * est + 4000,
                      trace_files={REAL_PY, TS_PY} if traced else None)
    world.thread_of = sched.current_name
    world.pre_hook = lambda t, m: sched.yield_point("target-pre")
    world.post_hook = lambda t, m: sched.yield_point("target-post")
    plan = FaultPlan({k: set(v) for k, v in faults["result"].items()})
    if faults["interrupt"]:
        sched.interrupts[(faults["interrupt"][0], faults["interrupt"][1])] = KeyboardInterrupt
    sems, queues = [], []
    workers = [WORKER_CLASSES[s.get("identity")](i, s, sched) for i, s in enumerate(wspecs)]
    workers2 = [Worker(i, s, sched) for i, s in enumerate(wspecs2)] if wspecs2 is not None else None
    for w in workers:
        if w.spec["kind"] == "raw":
            for ev in w.spec["items"]:
                if isinstance(ev.get("timestamp"), tuple):
                    ev["timestamp"] = vclock.explicit_time(ev["timestamp"][1])
                if "test_tags" in ev and ev["test_tags"] is not None:
                    ev["test_tags"] = set(ev["test_tags"])
    injected = InjectedError("make_tests failed")
    wrap_exc = InjectedError("wrap_result failed")
    yielded = []
    stop_log = []
    state = {}
    created = []   # per-worker results created by ConcurrentStreamTestSuite.run, in order
    # what the seams record into; swapped for the second run
    cur = {"workers": workers, "faults": faults, "yielded": yielded, "stop_log": stop_log, "queues": queues,
           "created": created}
    no_faults = {"result": {}, "make_tests_after": None, "wrap_raises_at": None, "interrupt": None}

    def make_tests_cts(suite):
        ws, fl = cur["workers"], cur["faults"]
        for i, w in enumerate(ws):
            if fl["make_tests_after"] == i:
                raise injected
            cur["yielded"].append(w)
            yield w
        if fl["make_tests_after"] == len(ws):
            raise injected

    def make_tests_csts():
        ws, fl = cur["workers"], cur["faults"]
        for i, w in enumerate(ws):
            if fl["make_tests_after"] == i:
                raise injected
            cur["yielded"].append(w)
            yield (w, w.spec["route"])
        if fl["make_tests_after"] == len(ws):
            raise injected

    def wrap_result(tsr, i):
        if cur["faults"]["wrap_raises_at"] == i:
            raise wrap_exc
        return StopRecorder(tsr, cur["stop_log"], i)

    def make_queue(*a, **k):
        q = SimQueue(sched)
        cur["queues"].append(q)
        return q

    world2 = World()
    world2.thread_of = sched.current_name
    world2.pre_hook, world2.post_hook = world.pre_hook, world.post_hook
    run2 = {"yielded": [], "stop_log": [], "queues": [], "created": [], "state": {}, "exc": None, "ran": False}

    def build():
        # on T0, with the seams in place: whatever the constructors create is simulated too
        if stream_suite:
            tg = TStream(world, "caller", plan)
            tg2 = TStream(world2, "caller", FaultPlan({}))
            st = testtools.ConcurrentStreamTestSuite(make_tests_csts)
        else:
            tg = TExt(world, "caller", plan)
            tg.failfast = failfast
            tg2 = TExt(world2, "caller", FaultPlan({}))
            import unittest as _ut
            st = testtools.ConcurrentTestSuite(_ut.TestSuite(), make_tests_cts, wrap_result=wrap_result)
        return tg, tg2, st

    def main():
        target, target2, suite = build()
        state["target"] = target
        try:
            _first(suite, target)
        finally:
            if workers2 is not None and not sched.problem:
                _second(suite, target2)

    def _second(suite, target2):
        first_threads = len(sched.threads)
        first_sems = len(sems)
        cur.update(workers=workers2, faults=no_faults, yielded=run2["yielded"], stop_log=run2["stop_log"],
                   queues=run2["queues"], created=run2["created"])
        sched.interrupts.clear()
        run2["ran"] = True
        try:
            suite.run(target2)
        except BaseException as e:    # noqa: B036 -- recorded, judged by the oracle
            run2["exc"] = e
        finally:
            run2["threads"] = sched.threads[first_threads:]
            run2["sems"] = sems[first_sems:]
            run2["state"]["alive"] = [t.name for t in run2["threads"] if t.state not in (DONE, NEW)]

    def _first(suite, target):
        try:
            suite.run(target)
        finally:
            # the instant run() unwinds (or returns)
            state["alive"] = [t.name for t in sched.threads if t.name != "T0" and t.state not in (DONE, NEW)]
            state["stop_log"] = list(stop_log)
            # worker threads are created in worker order: thread k (k>=1) belongs to worker k-1
            state["running"] = [i for i, t in enumerate(sched.threads[1:]) if t.state not in (DONE, NEW)]
            state["started"] = [i for i, t in enumerate(sched.threads[1:]) if t.state != NEW]
            # workers that have already announced completion (their last act) need no telling
            done_names = set()
            for q in queues:
                for step, th, item in q.put_log:
                    if not stream_suite or (isinstance(item, dict) and item.get("event") == "stopTestRun"):
                        done_names.add(th)
            state["announced"] = [i for i, t in enumerate(sched.threads[1:]) if t.name in done_names]

    class RecordingESD(testtools.ExtendedToStreamDecorator):
        def __init__(self, decorated):
            super().__init__(decorated)
            self._verif_idx = len(cur["created"])
            self._verif_log = cur["stop_log"]
            cur["created"].append(self)

        def stop(self):
            self._verif_log.append(self._verif_idx)
            return super().stop()

    class _TT:
        """stand-in for the ``testtools`` module global of testsuite.py"""

        ExtendedToStreamDecorator = RecordingESD

        def __getattr__(self, name):
            return getattr(testtools, name)

    saved = (_ts.threading, _ts.Queue, _ts.testtools)
    _ts.threading = threading_shim(sched, sems)
    _ts.Queue = make_queue
    _ts.testtools = _TT()
    try:
        res, exc = sched.run(main)
    finally:
        _ts.threading, _ts.Queue, _ts.testtools = saved
        vclock.uninstall()
    events = list(world.events)

    # ------------------------------------------------------------------ expectations
    abort_expected = None
    if faults["make_tests_after"] is not None:
        abort_expected = ("make_tests", injected)
    elif faults["wrap_raises_at"] is not None and faults["wrap_raises_at"] < len(workers):
        abort_expected = ("wrap_result", wrap_exc)
    if sched.fired_interrupts:
        abort_expected = ("interrupt", KeyboardInterrupt)
    result_fault_in_main = stream_suite and bool(plan.fired)
    if result_fault_in_main:
        abort_expected = ("result", TargetFault)

    if sched.problem:
        kind, desc = sched.problem
        if kind == "harness-stuck":
            raise RuntimeError("harness stuck: " + desc)
        out.violate(kind, "stream" if stream_suite else "plain", desc + f" | faults {faults} fired {plan.fired} interrupts {sched.fired_interrupts}", step=sched.step)
    else:
        _oracle(out, stream_suite, workers, yielded, faults, plan, sched, state, exc, abort_expected, events, queues,
                sems if not run2["ran"] else sems[:len(sems) - len(run2["sems"])],
                sched.threads if not run2["ran"] else sched.threads[:len(sched.threads) - len(run2["threads"])],
                fault_log=list(world.fault_log))
        # a stop that was delivered stays delivered: nothing the suite does afterwards may take it back
        if abort_expected is not None:
            for i in sorted(set(state["stop_log"])):
                if stream_suite:
                    flag = created[i].shouldStop if i < len(created) else True
                else:
                    flag = getattr(state["target"], "shouldStop", True)
                if not flag:
                    out.violate("stop-forgotten", f"{'stream' if stream_suite else 'plain'}:{abort_expected[0]}",
                                f"worker {i} was told to stop when run() was aborted, but its result's shouldStop reads False "
                                f"once everything has finished (it ran {[x for x in workers[i].emitted]})")
        if run2["ran"]:
            sub = Outcome()
            _oracle(sub, stream_suite, workers2, run2["yielded"], no_faults, FaultPlan({}), sched, run2["state"],
                    run2["exc"], None, list(world2.events), run2["queues"], run2["sems"], run2["threads"])
            for v in sub.violations:
                out.violate("second-run:" + v.kind, v.key, "second run() on the same suite object (first run "
                            + ("aborted" if exc is not None else "completed") + "): " + v.message)

    # ------------------------------------------------------------------ accounting
    for m, k in plan.fired:
        out.fire("caller-result-raises")
    if faults["result"]:
        out.plan("caller-result-raises")
    if faults["make_tests_after"] is not None:
        out.plan("make_tests-raises")
        out.fire("make_tests-raises")
    if faults["wrap_raises_at"] is not None:
        out.plan("wrap_result-raises")
        if abort_expected and abort_expected[0] == "wrap_result":
            out.fire("wrap_result-raises")
    if faults["interrupt"]:
        out.plan("interrupt:" + faults["interrupt"][0])
        for prim, k in sched.fired_interrupts:
            out.fire("interrupt:" + prim)
    for w in workers:
        if w.spec["crash_after"] is not None:
            out.plan("runner-crash")
        if w.crashed:
            out.fire("runner-crash")
    out.probe("suite:" + ("stream" if stream_suite else "plain"))
    if failfast:
        out.probe("caller-result-failfast")
    out.probe("policy:" + policy)
    if traced:
        out.probe("traced-run")
    if exc is not None:
        out.probe("run-aborted")
    if run2["ran"]:
        out.probe("second-run-after-" + ("abort" if exc is not None else "completion"))
    if any(s.waits for s in sems):
        out.probe("semaphore-contended")
    out.steps = sched.step
    out.sim_time = float(clock.ticks)
    out.ihash = digest_of(sched.decisions)
    out.hhash = digest_of(stream_suite, [(e.thread, e.method, e.test_id) for e in events], type(exc).__name__)
    out.nontrivial = sched.contended > 0
    if opts.get("want_sample"):
        out.sample = {
            "suite": "ConcurrentStreamTestSuite" if stream_suite else "ConcurrentTestSuite",
            "workers": [{k: (v if k != "items" else [str(i) for i in v]) for k, v in w.spec.items()} for w in workers],
            "faults": faults, "policy": policy, "traced": traced,
            "schedule_decisions": sched.decisions[:200],
            "fired": {"result": plan.fired, "interrupts": sched.fired_interrupts},
            "run_raised": None if exc is None else repr(exc),
            "caller_log": [(e.thread, e.method, e.test_id, (e.data or {}).get("test_status") if e.method == "status" else None) for e in events][:150],
            "steps": sched.step,
        }
    return out


def _oracle(out, stream_suite, workers, yielded, faults, plan, sched, state, exc, abort_expected, events, queues, sems, threads, fault_log=None):
    tag = "stream" if stream_suite else "plain"
    # -- abort / propagation
    if abort_expected is None:
        if exc is not None:
            out.violate("unexpected-raise", f"{tag}:{type(exc).__name__}", f"run() raised {exc!r} with faults {faults} fired {plan.fired}")
            return
    else:
        what, want = abort_expected
        ok = exc is not None and (exc is want if isinstance(want, BaseException) else isinstance(exc, want))
        if not ok:
            out.violate("abort-not-propagated", f"{tag}:{what}", f"expected {want!r} to propagate out of run(), got {exc!r}")
        # every worker already started (and not yet finished and joined) was told to stop
        told = set(state["stop_log"])
        for i in state["running"]:
            if i not in told and i not in state["announced"]:
                out.violate("worker-not-stopped", f"{tag}:{what}",
                            f"worker {i} was still running when run() unwound but stop() never reached its result; told {sorted(told)}")
    # -- each sub-suite run exactly once in its own thread
    threads_used = []
    for w in workers:
        if any(w is y for y in yielded) and abort_expected is None and len(w.run_threads) != 1:
            out.violate("run-count", f"{tag}:{len(w.run_threads)}", f"worker {w.idx} run() called {len(w.run_threads)} times: {w.run_threads}")
        if len(w.run_threads) > 1:
            out.violate("run-count", f"{tag}:{len(w.run_threads)}", f"worker {w.idx} run() called {len(w.run_threads)} times")
        for t in w.run_threads:
            if t == "T0":
                out.violate("run-count", f"{tag}:on-caller-thread", f"worker {w.idx} ran on T0")
            threads_used.append(t)
    if len(set(threads_used)) != len(threads_used):
        out.violate("run-count", f"{tag}:shared-thread", f"{threads_used}")
    # -- run() returns only after all of them have finished
    if exc is None and state.get("alive"):
        out.violate("thread-alive-on-return", tag, f"run() returned while {state['alive']} had not finished")
    for t in threads:
        if t.exc is not None and not plan.fired:
            out.violate("thread-died", f"{tag}:{type(t.exc).__name__}", f"{t.name}: {t.exc!r}")
    for s in sems:
        if s.value != 1:
            out.violate("semaphore-held", tag, f"semaphore value {s.value} after the run (holder {s.holder})")
    if exc is not None or plan.fired:
        return _partial_delivery(out, stream_suite, workers, events, fault_log)
    # -- conservation and order (fault-free path)
    if stream_suite:
        _stream_delivery(out, workers, events, queues, sched)
    else:
        _plain_delivery(out, workers, events)


def _crash_named(blob):
    return any(n in blob for n in (b"InjectedError", b"SystemExit", b"InjectedBase"))


def _of_route(route_code, rc):
    """Does an event that arrived with route_code come from the worker whose route code is rc?"""
    if rc is None:
        return route_code is None or not route_code.startswith("rc")     # (own codes of raw events are 'sub')
    return route_code is not None and (route_code == rc or route_code.startswith(rc + "/"))


def _norm_status(data):
    return {k: v for k, v in data.items()}


def _stream_delivery(out, workers, events, queues, sched):
    sink = [e for e in events if e.method == "status"]
    for e in sink:
        if e.thread != "T0":
            out.violate("event-on-wrong-thread", "stream", f"{e} delivered from {e.thread}")
        if e.data["timestamp"] is None:
            out.violate("route-or-timestamp", "timestamp-missing", f"{e.data}")
    # queue -> sink: per producer, nothing lost, duplicated or reordered
    q = queues[0] if queues else None
    puts = {}
    if q is not None:
        for step, th, item in q.put_log:
            if item.get("event") == "status":
                puts.setdefault(th, []).append(item)
    for w in workers:
        rc = w.spec["route"]
        got = [e.data for e in sink if _of_route(e.data["route_code"], rc)]
        th = w.run_threads[0] if w.run_threads else None
        put = puts.get(th, [])
        if len(got) != len(put):
            kind = "event-lost" if len(got) < len(put) else "event-duplicated"
            out.violate(kind, "stream:queue-to-result", f"worker {w.idx} ({rc}) put {len(put)} status events, caller's result received {len(got)}")
        else:
            for a, b in zip(put, got):
                if any(a.get(k) != b.get(k) for k in b if k in a):
                    out.violate("event-reordered", "stream:queue-to-result", f"worker {w.idx}: put {a} received {b}")
                    break
        # worker -> sink
        if w.spec["kind"] == "raw":
            br = f"broken-runner-'{rc}'"
            crash_events = [d for d in got if d["test_id"] == br]
            got = [d for d in got if d["test_id"] != br]
            if w.crashed:
                finals = [d["test_status"] for d in crash_events if d["test_status"] not in (None, "inprogress")]
                if finals != ["fail"]:
                    out.violate("broken-runner-missing", "stream:raw", f"worker {w.idx} crashed; broken-runner events {[d['test_status'] for d in crash_events]}")
            elif crash_events:
                out.violate("event-duplicated", "stream:spurious-broken-runner", f"worker {w.idx} did not crash")
            want = [kw for kind, kw in [(x[0], x[1]) for x in w.emitted if x[0] == "status"]]
            if len(got) != len(want):
                kind = "event-lost" if len(got) < len(want) else "event-duplicated"
                out.violate(kind, "stream:worker-to-result", f"worker {w.idx} emitted {len(want)} events, result received {len(got)}")
            else:
                for a, b in zip(want, got):
                    exp_route = rc if a.get("route_code") is None else (a["route_code"] if rc is None else rc + "/" + a["route_code"])
                    if b["route_code"] != exp_route:
                        out.violate("route-or-timestamp", "route-code", f"emitted {a} received route {b['route_code']!r} expected {exp_route!r}")
                    if a.get("timestamp") is not None and b["timestamp"] != a["timestamp"]:
                        out.violate("route-or-timestamp", "timestamp-changed", f"emitted {a} received {b}")
                    for k in ("test_id", "test_status", "file_name", "file_bytes", "eof"):
                        if k in a and a[k] != b[k]:
                            out.violate("event-reordered", "stream:worker-to-result", f"emitted {a} received {b}")
                            break
                    if (None if a.get("test_tags") is None else frozenset(a["test_tags"])) != b["test_tags"]:
                        out.violate("event-reordered", "stream:tags", f"emitted {a} received {b}")
        else:
            _check_list_worker_stream(out, w, got)
    # nothing from nowhere
    known = tuple(w.spec["route"] for w in workers)
    for e in sink:
        if not any(_of_route(e.data["route_code"], k) for k in known):
            out.violate("route-or-timestamp", "unknown-route", f"{e.data}")


def _check_list_worker_stream(out, w, got):
    """Per test of a list worker: inprogress ... exactly one final status, in test order."""
    want = [(x[1], STATUS_OF[x[2]]) for x in w.emitted if x[0] == "test"]
    if w.crashed:
        want.append((f"broken-runner-'{w.spec['route']}'", "fail"))
    finals = [(d["test_id"], d["test_status"]) for d in got if d["test_status"] not in (None, "inprogress")]
    if finals != want:
        kind = "broken-runner-missing" if w.crashed and (not finals or finals[-1] != want[-1]) and finals == want[:-1] else \
            ("event-lost" if len(finals) < len(want) else "event-duplicated" if len(finals) > len(want) else "event-reordered")
        out.violate(kind, "stream:tests", f"worker {w.idx}: final statuses {finals}, expected {want}")
        return
    for tid, st in want:
        mine = [d for d in got if d["test_id"] == tid]
        if not mine or mine[0]["test_status"] != "inprogress":
            out.violate("event-lost", "stream:inprogress", f"worker {w.idx}: test {tid} events {[d['test_status'] for d in mine]}")
        if tid.startswith("broken-runner"):
            if not any(d["file_name"] == "traceback" and _crash_named(d["file_bytes"] or b"") for d in mine) and \
                    not _crash_named(b"".join((d["file_bytes"] or b"") for d in mine if d["file_name"] == "traceback")):
                out.violate("broken-runner-missing", "stream:no-traceback", f"{[(d['file_name'], d['file_bytes']) for d in mine]}")


def _plain_delivery(out, workers, events):
    # one test at a time: between startTest(x) and its stopTest no event from another thread
    open_by = None
    for e in events:
        if open_by is not None and e.thread != open_by[0]:
            out.violate("block-interleaved", f"plain:{e.method}-inside-test", f"{e} while {open_by} is open", step=e.seq)
        if e.method == "startTest":
            if open_by is not None:
                out.violate("block-interleaved", "plain:startTest-inside-test", f"{e} while {open_by} is open", step=e.seq)
            open_by = (e.thread, e.test_id)
        elif e.method == "stopTest":
            open_by = None
    for w in workers:
        want = [(x[1], x[2]) for x in w.emitted if x[0] == "test"]
        if w.crashed:
            want.append(("broken-runner", "addError"))
        th = w.run_threads[0] if w.run_threads else None
        got = [(e.test_id, e.method) for e in events if e.thread == th and e.method in OUTCOMES]
        if got != want:
            if w.crashed and got == want[:-1]:
                kind = "broken-runner-missing"
            else:
                kind = "event-lost" if len(got) < len(want) else "event-duplicated" if len(got) > len(want) else "event-reordered"
            out.violate(kind, "plain:tests", f"worker {w.idx} on {th}: outcomes {got}, expected {want}")
            continue
        starts = [e.test_id for e in events if e.thread == th and e.method == "startTest"]
        stops = [e.test_id for e in events if e.thread == th and e.method == "stopTest"]
        if starts != [t for t, _ in want] or stops != starts:
            out.violate("event-lost", "plain:bracket", f"worker {w.idx}: starts {starts} stops {stops} expected {[t for t, _ in want]}")
        if w.crashed:
            be = [e for e in events if e.thread == th and e.test_id == "broken-runner" and e.method == "addError"]
            det = (be[0].data or {}).get("details") or {}
            if "traceback" not in det or not _crash_named(det["traceback"]["bytes"]):
                out.violate("broken-runner-missing", "plain:no-traceback", f"details {sorted(det)}")
    owners = {w.run_threads[0] for w in workers if w.run_threads}
    for e in events:
        if e.method in OUTCOMES and e.thread not in owners:
            out.violate("event-duplicated", "plain:unknown-thread", f"{e}")


def _partial_delivery(out, stream_suite, workers, events, fault_log=None):
    """After an abort or a result fault: nothing duplicated, per-worker order preserved."""
    if stream_suite:
        for w in workers:
            rc = w.spec["route"]
            finals = [d.data["test_id"] for d in events if d.method == "status" and _of_route(d.data["route_code"], rc)
                      and d.data["test_status"] not in (None, "inprogress", "exists") and w.spec["kind"] != "raw"]
            if len(set(finals)) != len(finals):
                out.violate("event-duplicated", "stream:after-abort", f"worker {w.idx}: {finals}")
            order = [x[1] for x in w.emitted if x[0] == "test"]
            idx = [order.index(t) for t in finals if t in order]
            if idx != sorted(idx):
                out.violate("event-reordered", "stream:after-abort", f"worker {w.idx}: {finals}")
    else:
        # "ConcurrentTestSuite's result sees one test at a time" - also when the result itself raised somewhere:
        # a test it was told to start is closed before the next one starts (unless it refused the stopTest)
        timeline = sorted([(e.seq, "ev", e) for e in events] + [(f[0], "fault", f) for f in (fault_log or [])], key=lambda x: x[0])
        open_test = None
        for _, what, x in timeline:
            if what == "fault":
                if x[2] == "stopTest" and open_test is not None and x[3] == open_test:
                    open_test = None          # the result raised from stopTest: its own doing
                continue
            if x.method == "startTest":
                if open_test is not None:
                    out.violate("block-interleaved", "plain:startTest-while-a-faulted-test-is-open",
                                f"startTest({x.test_id}) arrived while {open_test} had been started and not stopped; faults {fault_log}")
                    break
                open_test = x.test_id
            elif x.method == "stopTest":
                open_test = None
        for w in workers:
            th = w.run_threads[0] if w.run_threads else None
            got = [e.test_id for e in events if e.thread == th and e.method in OUTCOMES]
            if len(set(got)) != len(got):
                out.violate("event-duplicated", "plain:after-abort", f"worker {w.idx}: {got}")
            order = [x[1] for x in w.emitted if x[0] == "test"]
            idx = [order.index(t) for t in got if t in order]
            if idx != sorted(idx):
                out.violate("event-reordered", "plain:after-abort", f"worker {w.idx}: {got}")
