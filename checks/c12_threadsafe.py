"""C12 -- ThreadsafeForwardingResult: per-test atomicity under every interleaving; the
semaphore is released after every block and after startTestRun/stopTestRun/stop/done even
when the target raises, so no interleaving deadlocks."""

import os

import testtools
from testtools import content as _content
from testtools.testresult import real as _real

from simkit.driver import Outcome
from simkit.sched import Scheduler, SimThread, SimSemaphore, draw_policy
from simkit.targets import World, TExt, FaultPlan, TargetFault, OUTCOMES
from simkit.tape import digest_of
from simkit import vclock

ID = "C12"
RUNS = {"quick": 55_000, "thorough": 1_000_000}
MAX_BATCH = 1000
SIM_TIME_UNIT = "virtual milliseconds (1 per scheduler step)"
RULE = (
    "each run = 2..4 simulated threads, each with its own ThreadsafeForwardingResult over one shared "
    "semaphore and one recording target, each reporting 1..3 tests (explicit times, global and test-local "
    "tags, all six outcomes) plus startTestRun/stopTestRun/stop/done/shouldStop, under a seeded schedule "
    "(random walk, PCT bounded pre-emption, sticky; yield points at every semaphore op and target call, and "
    "in traced runs at every source line of testresult/real.py) and an optional fault plan (k-th call of a "
    "target method raises); distinct = distinct digest of the (thread picked at each contended point) "
    "sequence + abstract history; non-trivial = at least one scheduling point with >1 enabled thread"
)
REAL_STUB = {
    "real": ["ThreadsafeForwardingResult", "ExtendedToOriginalDecorator", "TagContext", "TestResult base state"],
    "stub": ["semaphore (SimSemaphore)", "threads (baton-passed real threads, seeded scheduler)",
             "shared target (simkit.targets.TExt, yields to the scheduler, fault plan)", "wall clock (virtual)"],
}
ASSUMPTIONS = [
    "pre-emption granularity: synchronisation points and target calls; source-line granularity in traced runs; nothing finer",
    "after a fired target fault, tag contents are no longer compared (the target's own tag state may be left inside an unclosed test); structure, atomicity, order, semaphore and progress still are",
    "pure queries (wasSuccessful) pass through unguarded by design and are not test events",
]

REAL_PY = os.path.realpath(_real.__file__)
# real.py resolves a circular import lazily (module global PlaceHolder): do it now, so that the
# line events seen by traced runs do not depend on what ran earlier in this process
_real._TestRecord.create("warm-up", None).to_test_case()
TAGS = ("a", "b", "c", "d")
OUT_METHODS = ("addSuccess", "addFailure", "addError", "addSkip", "addExpectedFailure", "addUnexpectedSuccess")
FAULT_METHODS = ("time", "startTest", "tags", "stopTest", "startTestRun", "stopTestRun", "stop", "done") + OUT_METHODS


class FakeTest:
    failureException = AssertionError

    def __init__(self, tid):
        self._id = tid

    def id(self):
        return self._id

    def __repr__(self):
        return f"<{self._id}>"


def _tagpair(tape):
    new = {t for t in TAGS if tape.chance("program", 1, 3)}
    gone = {t for t in TAGS if t not in new and tape.chance("program", 1, 4)}
    return sorted(new), sorted(gone)


def gen_workload(tape, big=False):
    n = 2 + tape.draw("program", 5 if big else 3, "nthreads")
    scripts = []
    ek = [0]

    def expl():
        ek[0] += 1
        return ek[0]

    for th in range(n):
        ops = []
        ntests = 1 + tape.draw("program", 5 if big else 3, "ntests")
        if tape.chance("program", 1, 4, "startTestRun"):
            ops.append(["run", "startTestRun"])
        for i in range(ntests):
            for _ in range(tape.draw("program", 3, "pre-ops")):
                k = tape.draw("program", 8, "pre-op")
                if k <= 1:
                    ops.append(["gtags"] + list(_tagpair(tape)))
                elif k == 2:
                    ops.append(["time", expl()])
                elif k == 3:
                    ops.append(["time", None])
                elif k == 4:
                    ops.append(["run", tape.choice("program", ("stop", "done", "shouldStop", "wasSuccessful", "startTestRun", "stopTestRun"), "run-op")])
            t = {"tid": f"th{th}.t{i}", "mid_time": None, "ltags": [], "outcome": tape.choice("program", OUT_METHODS, "outcome")}
            if tape.chance("program", 1, 4, "mid-time"):
                t["mid_time"] = expl()
            for _ in range(tape.draw("program", 3, "ltags")):
                t["ltags"].append(list(_tagpair(tape)))
            # a tag change between the outcome and stopTest: still that test's own, gone with it
            t["late_tags"] = list(_tagpair(tape)) if tape.chance("program", 1, 4, "tags-after-outcome") else None
            ops.append(["test", t])
        if tape.chance("program", 1, 4, "stopTestRun"):
            ops.append(["run", "stopTestRun"])
        scripts.append(ops)
    return scripts


def gen_faults(tape):
    plan = {}
    if not tape.chance("faults", 2, 5, "faults-on"):
        return plan
    for _ in range(1 + tape.draw("faults", 2, "nfaults")):
        m = tape.choice("faults", FAULT_METHODS, "fault-method")
        k = 1 + tape.draw("faults", 5, "fault-k")
        plan.setdefault(m, set()).add(k)
    return plan


def run_one(tape, opts):
    out = Outcome()
    scripts = gen_workload(tape, big=opts.get("tier") == "thorough")
    plan = gen_faults(tape)
    traced = tape.chance("config", 1, 4 if opts.get("tier") == "thorough" else 12, "traced")   # line-level pre-emption
    nops = sum(len(s) for s in scripts)
    est = nops * (40 if traced else 10)
    if traced:
        policy = "pct"
        d = tape.draw("config", 4, "pct-depth")
        points = tuple(tape.draw("config", max(2, est), "pct-point") for _ in range(d))
    else:
        policy, points = draw_policy(tape, est)
    clock = vclock.VClock()
    vclock.install(clock)
    world = World()
    sched = Scheduler(tape, clock=clock, policy=policy, pct_points=points,
                      step_cap=200 * est + 2000, trace_files={REAL_PY} if traced else None)
    world.thread_of = sched.current_name
    calls = {}
    cur_call = {}
    world.call_of = lambda: cur_call.get(sched.current_name())
    faults = FaultPlan(plan)
    target = TExt(world, "shared", faults)
    world.pre_hook = lambda t, m: sched.yield_point("target-pre")
    world.post_hook = lambda t, m: sched.yield_point("target-post")
    sem = SimSemaphore(sched, 1)
    model = {}      # call id -> expectation
    thread_faults = {}
    observations = []

    def worker(th, ops):
        name = sched.current_name()
        fwd = testtools.ThreadsafeForwardingResult(target, sem)
        G, override = set(), None
        seqno = 0
        for op in ops:
            seqno += 1
            cid = f"{name}#{seqno}"
            cur_call[name] = cid
            try:
                if op[0] == "run":
                    what = op[1]
                    model[cid] = {"kind": "run", "what": what, "thread": name}
                    if what == "shouldStop":
                        fwd.shouldStop
                    elif what == "wasSuccessful":
                        fwd.wasSuccessful()
                    else:
                        if what == "startTestRun":
                            # the forwarder resets its own state first, whatever the target then does
                            G, override = set(), None
                        getattr(fwd, what)()
                elif op[0] == "gtags":
                    fwd.tags(set(op[1]), set(op[2]))
                    G |= set(op[1])
                    G -= set(op[2])
                elif op[0] == "time":
                    override = op[1]
                    fwd.time(None if op[1] is None else vclock.explicit_time(op[1]))
                elif op[0] == "test":
                    t = op[1]
                    test = FakeTest(t["tid"])
                    exp = {"kind": "test", "thread": name, "tid": t["tid"], "outcome": t["outcome"]}
                    model[cid] = exp
                    lo = clock.peek()
                    fwd.startTest(test)
                    hi = clock.peek()
                    exp["start"] = ("explicit", override) if override is not None else ("clock", lo, hi)
                    L = set(G)
                    if t["mid_time"] is not None:
                        override = t["mid_time"]
                        fwd.time(vclock.explicit_time(override))
                    for new, gone in t["ltags"]:
                        fwd.tags(set(new), set(gone))
                        L |= set(new)
                        L -= set(gone)
                    exp["tags"] = frozenset(L)
                    lo = clock.peek()
                    exp["end"] = ("explicit", override) if override is not None else ("clock", lo, None)
                    m = t["outcome"]
                    details = {"note": _content.text_content("detail of " + t["tid"])}
                    try:
                        if m == "addSuccess":
                            fwd.addSuccess(test)
                        elif m == "addSkip":
                            fwd.addSkip(test, reason="why")
                        else:
                            getattr(fwd, m)(test, details=details)
                    finally:
                        exp["end_hi"] = clock.peek()
                    if t.get("late_tags"):
                        fwd.tags(set(t["late_tags"][0]), set(t["late_tags"][1]))
                    fwd.stopTest(test)
                    exp["completed"] = True
            except TargetFault as e:
                model.setdefault(cid, {"kind": "other", "thread": name})["fault"] = str(e)
                thread_faults.setdefault(name, []).append(cid)
                if op[0] == "test":
                    try:
                        fwd.stopTest(test)
                    except Exception:
                        pass
            finally:
                cur_call.pop(name, None)

    def main():
        threads = [SimThread(sched, target=worker, args=(i, ops), name=f"W{i + 1}") for i, ops in enumerate(scripts)]
        for t in threads:
            t.start()
        for t in threads:
            t.join()

    res, exc = sched.run(main)
    vclock.uninstall()
    events = list(world.events)
    # ------------------------------------------------------------------ oracle
    if sched.problem:
        kind, desc = sched.problem
        if kind == "harness-stuck":
            raise RuntimeError("harness stuck: " + desc)
        key = "sem-held" if sem.value <= 0 else "other"
        out.violate(kind, key, desc + f" | semaphore value={sem.value} holder={sem.holder} faults fired={faults.fired}", step=sched.step)
    else:
        if exc is not None:
            raise exc
        for t in sched.threads:
            if t.exc is not None:
                out.violate("thread-died", type(t.exc).__name__, f"{t.name}: {t.exc!r}")
        if sem.value != 1 or sem.max_value > 1:
            out.violate("semaphore-held" if sem.value < 1 else "semaphore-over-released", f"value={sem.value}",
                        f"after the run the semaphore count is {sem.value}, it peaked at {sem.max_value} (limit 1; holder {sem.holder}); faults fired {faults.fired}")
        _check_log(events, model, bool(faults.fired), out)
    # ------------------------------------------------------------------ accounting
    for m, k in faults.fired:
        out.fire("target-raises:" + ("outcome" if m in OUT_METHODS else m))
    if plan:
        out.plan("target-raises")
    if sem.waits:
        out.probe("semaphore-contended", sem.waits)
    if traced:
        out.probe("traced-run")
    out.probe("policy:" + policy)
    out.steps = sched.step
    out.sim_time = float(clock.ticks)
    out.ihash = digest_of(sched.decisions)
    out.hhash = digest_of([(e.thread, e.method) for e in events])
    out.nontrivial = sched.contended > 0
    if opts.get("want_sample"):
        out.sample = {
            "scripts": scripts, "fault_plan": {k: sorted(v) for k, v in plan.items()},
            "policy": policy, "pct_points": list(points), "traced": traced,
            "schedule_decisions": sched.decisions[:200],
            "faults_fired": faults.fired,
            "target_log": [(e.thread, e.call, e.method, e.test_id) for e in events][:120],
            "steps": sched.step,
        }
    return out


def _check_log(events, model, faulted, out):
    # 1. atomicity: the target events caused by one reporter-side call are contiguous
    pos = {}
    for i, e in enumerate(events):
        pos.setdefault(e.call, []).append(i)
    for cid, idxs in pos.items():
        if cid is None:
            out.violate("block-malformed", "event-without-call", f"{events[idxs[0]]}")
            continue
        if idxs[-1] - idxs[0] + 1 != len(idxs):
            inside = [events[j] for j in range(idxs[0], idxs[-1] + 1) if events[j].call != cid]
            out.violate(
                "block-interleaved",
                f"{inside[0].method}-inside-block",
                f"events of {cid} span {idxs[0]}..{idxs[-1]} but {[(x.thread, x.call, x.method) for x in inside]} arrived in between",
                step=events[idxs[0]].seq,
            )
    # 2. per call: the right shape
    per_thread_order = {}
    for cid, exp in model.items():
        evs = [events[i] for i in pos.get(cid, [])]
        meths = [e.method for e in evs]
        fault = exp.get("fault")
        per_thread_order.setdefault(exp["thread"], []).append((cid, evs[0].seq if evs else None))
        if exp["kind"] == "run":
            what = exp["what"]
            want = [] if what in ("shouldStop", "wasSuccessful") else [what]
            if fault:
                if meths not in ([], want):
                    out.violate("block-malformed", f"faulted-{what}", f"{cid}: {meths}")
            elif meths != want:
                out.violate("call-count", what, f"{cid}: target saw {meths}, expected {want}")
        elif exp["kind"] == "test":
            full_ok = _shape_ok(meths, exp["outcome"])
            if fault:
                if not _prefix_ok(meths, exp["outcome"]):
                    out.violate("block-malformed", "faulted-block-not-a-prefix", f"{cid}: {meths} (fault {fault})")
                continue
            if not exp.get("completed"):
                continue
            if not full_ok:
                key = "outcome-count" if sum(1 for m in meths if m in OUTCOMES) != 1 else "shape"
                out.violate("block-malformed" if key == "shape" else "outcome-count", key,
                            f"{cid}: target saw {meths} for test {exp['tid']} outcome {exp['outcome']}")
                continue
            if any(e.test_id != exp["tid"] for e in evs if e.method in ("startTest", "stopTest") + OUTCOMES):
                out.violate("block-malformed", "wrong-test", f"{cid}: {[(e.method, e.test_id) for e in evs]}")
            # start time: that test's own
            t0 = vclock.us_of(evs[0].data["time"]) if evs[0].data["time"] is not None else None
            if not _time_ok(evs[0].data["time"], exp["start"], None):
                out.violate("start-time", exp["start"][0], f"{cid}: block starts with time({evs[0].data['time']}) expected {exp['start']}")
            if not _time_ok(evs[2].data["time"], exp["end"], exp.get("end_hi")):
                out.violate("end-time", exp["end"][0], f"{cid}: end time {evs[2].data['time']} expected {exp['end']}..{exp.get('end_hi')}")
            if not faulted:
                oe = next(e for e in evs if e.method in OUTCOMES)
                if oe.data["tags"] != exp["tags"]:
                    out.violate("tags-mismatch", "outcome-tags",
                                f"{cid}: target saw tags {sorted(oe.data['tags'])} at the outcome, reporter had {sorted(exp['tags'])}")
    # 3. each thread's calls in that thread's order
    for th, lst in per_thread_order.items():
        seqs = [s for _, s in lst if s is not None]
        if seqs != sorted(seqs):
            out.violate("order-in-thread", th, f"{lst}")


def _shape_ok(meths, outcome):
    if len(meths) < 5 or meths[0] != "time" or meths[1] != "startTest" or meths[2] != "time":
        return False
    if meths[-1] != "stopTest" or meths[-2] != outcome:
        return False
    return all(m == "tags" for m in meths[3:-2])


def _prefix_ok(meths, outcome):
    """A faulted block: a prefix of time,startTest,time,tags*,outcome,stopTest -- where the
    raising call itself is missing, and stopTest may still follow a raising outcome."""
    state = 0
    for m in meths:
        if state == 0 and m == "time":
            state = 1
        elif state == 1 and m == "startTest":
            state = 2
        elif state == 2 and m == "time":
            state = 3
        elif state == 3 and m == "tags":
            state = 3
        elif state == 3 and m == outcome:
            state = 4
        elif state in (2, 3, 4) and m == "stopTest":      # (a block opened with startTest may be closed whatever raised in it)
            state = 5
        else:
            return False
    return True


def _time_ok(got, exp, hi):
    if exp[0] == "explicit":
        return got == vclock.explicit_time(exp[1])
    us = vclock.us_of(got)
    if us is None:
        return False
    lo = exp[1]
    hi = exp[2] if len(exp) > 2 and exp[2] is not None else hi
    return us > lo and (hi is None or us <= hi)
