"""C01 -- every test run is bracketed and yields exactly one outcome; a non-Exception
raised by user code is reported as an error, does not stop tearDown/cleanups and
propagates out of run() after stopTest."""

from simkit.driver import Outcome
from simkit.program import Cfg, gen_program
from simkit import lifecycle as lc

ID = "C01"
RUNS = {"quick": 220_000, "thorough": 4_000_000}
SIM_TIME_UNIT = "scripted user operations executed"
RULE = (
    "each run = one generated test program (ops per stage, cleanups registered anywhere, fixtures, "
    "expectThat/assertThat, decorators) x one fault plan (<=1 raising op per op list: setUp pre/post, "
    "test, tearDown pre/post, every cleanup body, fixture setUp/cleanups; kinds incl. KeyboardInterrupt/"
    "SystemExit/MultipleExceptions) x one result flavour; distinct = distinct digest of (flavour, raised "
    "kinds+stages, executed-op shape, outcome, propagated exception class); non-trivial = at least one "
    "scripted op raised"
)
REAL_STUB = {
    "real": ["testtools.TestCase.run", "testtools.runtest.RunTest", "ExtendedToOriginalDecorator",
             "ExtendedToStreamDecorator (stream flavour)", "testtools.TestResult (testtools flavour)",
             "fixtures.Fixture", "unittest/testtools skip + expectedFailure decorators"],
    "stub": ["user stages (scripted ops)", "result targets 2.6/2.7/extended/twisted/stream sink (simkit.targets)"],
}
ASSUMPTIONS = [
    "programs always upcall setUp/tearDown",
    "faults are exceptions raised by user code only; the result object itself never raises here",
    "fixture cleanups raise Exception subclasses only (fixtures' own CallMany stops at a non-Exception)",
]


def cfg_for(tape):
    c = Cfg()
    c.raise_num, c.raise_den = (1, 3) if tape.chance("config", 1, 2, "fault-rate") else (1, 6)
    c.max_ops = 1 + tape.draw("config", 3, "max-ops")
    c.details = tape.chance("config", 1, 3, "details")
    c.patches = False
    c.setcells = False
    c.fixtures = tape.chance("config", 1, 3, "fixtures")
    return c


def run_one(tape, opts):
    out = Outcome()
    flavour = tape.choice("config", lc.FLAVOURS, "flavour")
    cfg = cfg_for(tape)
    if opts.get("tier") == "thorough":
        cfg.max_ops += 2
        cfg.max_cleanups += 2
    runner = lc.draw_runner(tape)
    if runner != "plain":
        cfg.skip_decorators = False     # what @skip does to setUp/tearDown under the Twisted runners is not in any property
    prog = gen_program(tape, cfg)
    sim = lc.simulate(prog, flavour, runner=runner)
    rr = sim.runs[0]
    lc.oracle_bracket(sim, rr, out)
    m = sim.model
    for r in m.R:
        out.fire("raise:" + r.kind)
    if m.force:
        out.fire("forced-failure")
    out.plan("user-exception")
    out.nontrivial = bool(m.R) or m.force
    out.steps = len(rr.exec_log)
    out.sim_time = float(len(rr.exec_log))
    out.hhash = lc.history_hash(sim)
    out.ihash = None
    out.probe("flavour:" + flavour)
    if m.skip_decorated is not None:
        out.probe("skip-decorated")
    out.probe("runner:" + runner)
    if opts.get("want_sample"):
        out.sample = lc.sample_of(sim)
    return out
