"""C20 -- Deferred matchers classify fired / failed / unfired without firing anything:
exactly one of has_no_result(), succeeded(Always()), failed(Always()) matches; succeeded(m) /
failed(m) match iff m matches the exact value / Failure; extract_result returns / raises;
matching never fires, leaves unfired and successful Deferreds intact for later callbacks,
marks inspected failures handled; SynchronousDeferredRunTest treats an already-fired Deferred
like a direct return / raise."""

import gc
import unittest

from twisted.internet import defer
from twisted.python.failure import Failure
from twisted.logger import globalLogPublisher

import testtools
from testtools.matchers import Mismatch
from testtools.twistedsupport import (
    has_no_result, succeeded, failed, SynchronousDeferredRunTest,
)
from testtools.twistedsupport._deferred import extract_result, DeferredNotFired

from simkit.driver import Outcome
from simkit.targets import World, TExt, OUTCOMES
from simkit.tape import digest_of

try:   # keep Twisted from printing buffered "Unhandled error" reports to stderr
    from twisted.logger import globalLogBeginner
    globalLogBeginner.beginLoggingTo([lambda event: None], redirectStandardIO=False, discardBuffer=True)
except Exception:   # pragma: no cover
    pass

ID = "C20"
RUNS = {"quick": 40_000, "thorough": 2_000_000}
SIM_TIME_UNIT = "operations on the Deferred"
RULE = (
    "each run = a history of 1..7 operations on one Deferred in a simulator-chosen order -- add a pass-through "
    "callback/errback pair, fire with a value (None, nested containers, unique token), fail with an exception, "
    "match with has_no_result()/succeeded(m)/failed(m) for scripted inner matchers, classify with all three on "
    "identically built twins, extract_result, drop all references and collect garbage at a simulator-chosen point "
    "(GC is disabled otherwise) while a Twisted log observer records 'Unhandled error in Deferred' -- plus, in a third "
    "of the runs, a scripted TestCase under SynchronousDeferredRunTest whose stages return already-fired/failed "
    "Deferreds compared with the same program returning/raising directly under the plain RunTest; distinct = digest "
    "of the op sequence with states; non-trivial = history contains a match/extract op and a fire/fail op"
)
REAL_STUB = {
    "real": ["testtools.twistedsupport._matchers (_NoResult/_Succeeded/_Failed)", "_deferred.on_deferred_result / extract_result",
             "SynchronousDeferredRunTest", "twisted Deferred / Failure / DebugInfo unhandled-error logging"],
    "stub": ["inner matchers (scripted)", "garbage collection timing (gc disabled, explicit collect)", "log observer"],
}
ASSUMPTIONS = [
    "after succeeded()/failed() inspected a failure, or after extract_result raised one, the Deferred's later result is not compared (the property only promises 'handled'); value preservation is checked for unfired and successful Deferreds",
    "user callbacks are pass-through (they return what they received)",
]

OPS = ("cb", "fire", "fail", "no_result", "succeeded", "failed", "classify", "extract")


class ScriptedInner:
    def __init__(self, verdict):
        self.verdict = verdict
        self.seen = []

    def match(self, matchee):
        self.seen.append(matchee)
        return None if self.verdict else Mismatch("scripted inner mismatch")

    def __str__(self):
        return "ScriptedInner(%s)" % self.verdict


class Tok:
    def __init__(self, n):
        self.n = n

    def __repr__(self):
        return "Tok(%d)" % self.n


def _value(tape, n):
    k = tape.draw("payload", 5, "value-kind")
    if k == 0:
        return None
    if k == 1:
        return Tok(n)
    if k == 2:
        return [1, [2, {"k": (3, Tok(n))}]]
    if k == 3:
        return 0
    return ("tuple", n)


class CustomError(Exception):
    pass


def _exc(tape, n):
    cls = tape.choice("payload", (RuntimeError, ValueError, KeyError, CustomError, AssertionError), "exc-class")
    return cls("exc-%d" % n)


def gen(tape):
    n = 1 + tape.draw("program", 7, "n-ops")
    ops = []
    fired = chained = inner_fired = False
    for i in range(n):
        menu = [(2, "cb"), (3, "no_result"), (3, "succeeded"), (3, "failed"), (2, "classify"), (2, "extract")]
        if not fired:
            menu += [(3, "fire"), (3, "fail")]
            if not chained:
                menu += [(1, "chain")]
        elif chained and not inner_fired:
            menu += [(3, "fire_inner"), (2, "fail_inner")]
        op = tape.weighted("program", menu, "op")
        if op in ("fire", "fail"):
            fired = True
        if op == "chain":
            chained = True
        if op in ("fire_inner", "fail_inner"):
            inner_fired = True
        ops.append([op, tape.chance("program", 1, 2, "inner-verdict") if op in ("succeeded", "failed") else None])
    return ops


def run_deferred_history(tape, out):
    ops = gen(tape)
    logged = []

    def observer(event):
        if event.get("isError") or "failure" in event or "log_failure" in event:
            logged.append(event)

    globalLogPublisher.addObserver(observer)
    gc_was = gc.isenabled()
    gc.disable()
    trace = []
    try:
        d = defer.Deferred()
        state = ["unfired", None]     # unfired | value | failure | spent
        handled = False               # failure inspected by succeeded()/failed() or extract_result
        tainted = False               # later result no longer specified
        seen_by_cb = []
        nested = [None]               # a nested Deferred the result chain waits on
        n = 0
        for op, arg in ops:
            n += 1
            st = state[0]
            trace.append((op, st))
            if op == "chain":
                # a callback that returns a not-yet-fired Deferred: once d fires with a value its
                # result is pending on that inner Deferred -- for every observer d has no result yet
                nested[0] = defer.Deferred()
                d.addCallback(lambda v, i=nested[0]: i)
            elif op == "fire_inner":
                if st == "paused":
                    v = _value(tape, n)
                    state[:] = ["value", v]
                    nested[0].callback(v)
            elif op == "fail_inner":
                if st == "paused":
                    e = _exc(tape, n)
                    state[:] = ["failure", e]
                    nested[0].errback(Failure(e))
            elif op == "cb":
                rec = []
                seen_by_cb.append(rec)

                def cb(v, rec=rec):
                    rec.append(("value", v))
                    return v

                def eb(f, rec=rec):
                    rec.append(("failure", f))
                    return f

                d.addCallbacks(cb, eb)
                if st == "value" and not tainted and nested[0] is None:
                    if rec != [("value", state[1])] or rec[0][1] is not state[1]:
                        out.violate("result-not-preserved", "callback-after-match", f"callback added after ops {trace} saw {rec}, original value {state[1]!r}")
            elif op == "fire":
                v = _value(tape, n)
                if nested[0] is not None:
                    state[:] = ["paused", None]
                else:
                    state[:] = ["value", v]
                d.callback(v)
                if not tainted and nested[0] is None:
                    for rec in seen_by_cb:
                        if len(rec) != 1 or rec[0][0] != "value" or rec[0][1] is not v:
                            out.violate("result-not-preserved", "callback-before-fire", f"ops {trace}: callback saw {rec}, fired with {v!r}")
            elif op == "fail":
                e = _exc(tape, n)
                state[:] = ["failure", e]
                d.errback(Failure(e))
                if not tainted:
                    for rec in seen_by_cb:
                        if len(rec) != 1 or rec[0][0] != "failure" or rec[0][1].value is not e:
                            out.violate("result-not-preserved", "errback-before-fail", f"ops {trace}: errback saw {rec}")
            elif op == "no_result":
                if tainted and st not in ("unfired", "paused"):
                    continue
                mm = has_no_result().match(d)
                want = st in ("unfired", "paused")
                if (mm is None) != want:
                    out.violate("classifier-wrong", f"has_no_result-on-{st}", f"ops {trace}: has_no_result() gave {mm and mm.describe()}")
                _describe_ok(mm, out)
            elif op in ("succeeded", "failed"):
                if tainted and st != "unfired":
                    continue
                inner = ScriptedInner(arg)
                mm = (succeeded if op == "succeeded" else failed)(inner).match(d)
                hit = (op == "succeeded" and st == "value") or (op == "failed" and st == "failure")
                want = hit and arg
                if (mm is None) != bool(want):
                    out.violate("inner-verdict" if hit else "classifier-wrong", f"{op}-on-{st}-inner-{arg}",
                                f"ops {trace}: {op}(inner verdict {arg}) on {st} gave {mm and mm.describe()}")
                if hit:
                    if len(inner.seen) != 1:
                        out.violate("inner-verdict", f"{op}-inner-called-{len(inner.seen)}", f"ops {trace}")
                    elif st == "value" and inner.seen[0] is not state[1]:
                        out.violate("inner-verdict", "succeeded-handed-other-value", f"inner matcher got {inner.seen[0]!r}, result is {state[1]!r}")
                    elif st == "failure" and not (isinstance(inner.seen[0], Failure) and inner.seen[0].value is state[1]):
                        out.violate("inner-verdict", "failed-handed-other-failure", f"inner matcher got {inner.seen[0]!r}")
                elif inner.seen:
                    out.violate("inner-verdict", f"{op}-inner-called-on-{st}", f"ops {trace}: inner matcher was handed {inner.seen}")
                _describe_ok(mm, out)
                if st == "failure":
                    handled = True
                    tainted = True
            elif op == "classify":
                # all three classifiers; run succeeded/failed on twins built the same way when the
                # state is a failure (they consume it), on the Deferred itself otherwise
                if tainted and st != "unfired":
                    continue
                res = {}
                res["no_result"] = has_no_result().match(d) is None
                if st == "failure":
                    t1, t2 = defer.fail(Failure(state[1])), defer.fail(Failure(state[1]))
                    res["succeeded"] = succeeded(ScriptedInner(True)).match(t1) is None
                    res["failed"] = failed(ScriptedInner(True)).match(t2) is None
                    del t1, t2
                else:
                    res["succeeded"] = succeeded(ScriptedInner(True)).match(d) is None
                    res["failed"] = failed(ScriptedInner(True)).match(d) is None
                want = {"unfired": "no_result", "paused": "no_result", "value": "succeeded", "failure": "failed"}[st]
                hits = sorted(k for k, v in res.items() if v)
                if hits != [want]:
                    out.violate("classifier-count", f"{st}:{'+'.join(hits) or 'none'}", f"ops {trace}: classifiers matching {hits}, expected exactly [{want}]")
            elif op == "extract":
                if tainted and st != "unfired":
                    continue
                try:
                    got = ("value", extract_result(d))
                except DeferredNotFired:
                    got = ("notfired", None)
                except BaseException as e:   # noqa
                    got = ("exc", e)
                if st in ("unfired", "paused"):
                    ok = got[0] == "notfired"
                elif st == "value":
                    ok = got[0] == "value" and got[1] is state[1]
                else:
                    ok = got[0] == "exc" and got[1] is state[1]
                if not ok:
                    out.violate("extract-result", f"on-{st}-got-{got[0]}", f"ops {trace}: extract_result gave {got!r}, state {state}")
                # (looking is passive: an unfired Deferred and a successful result stay as they were; a failure
                # that extract_result raised has been dealt with, what the Deferred holds afterwards is not specified)
                if st == "failure":
                    tainted = True
                    handled = True
            # matching never fires anything
            if state[0] == "paused" and nested[0].called:
                out.violate("fired-by-match", op + ":inner", f"ops {trace}: the nested Deferred became called")
            if state[0] == "unfired" and d.called:
                out.violate("fired-by-match", op, f"ops {trace}: Deferred became called")
        # drop all references and collect: an unhandled failure is logged, a handled one is not
        final = state[0]
        logged_before = len(logged)
        del d            # with GC disabled the last reference going away finalises it at once
        seen_by_cb = None
        gc.collect()
        unhandled_logged = len(logged) > logged_before
        if final == "failure":
            if handled and unhandled_logged:
                out.violate("unhandled-logged", "after-inspection", f"ops {trace}: failure was inspected by succeeded()/failed()/extract_result but 'Unhandled error' was logged")
            if not handled and not unhandled_logged:
                out.probe("unhandled-not-logged")   # informational: twisted's own behaviour
            if unhandled_logged:
                out.probe("unhandled-error-logged-at-gc")
        elif unhandled_logged:
            out.violate("unhandled-logged", f"on-{final}", f"ops {trace}: something was logged as an error at collection")
    finally:
        globalLogPublisher.removeObserver(observer)
        if gc_was:
            gc.enable()
    return ops, trace


def _describe_ok(mm, out):
    if mm is not None:
        try:
            text = mm.describe()
            details = mm.get_details()
            if not isinstance(text, str) or not isinstance(details, dict):
                out.violate("mismatch-protocol", "types", f"describe {type(text)} details {type(details)}")
        except Exception as e:
            out.violate("mismatch-protocol", type(e).__name__, repr(e))


# ------------------------------------------------------------------------------- sync runner facet
STAGE_ENDS = ("return", "fail", "error", "skip")


def _mk_exc(kind, marker):
    if kind == "fail":
        return AssertionError(marker)
    if kind == "skip":
        return unittest.SkipTest(marker)
    return RuntimeError(marker)


def run_sync_runner(tape, out):
    prog = {s: tape.weighted("program", [(4, "return"), (1, "fail"), (1, "error"), (1, "skip")], "end:" + s)
            for s in ("setUp", "test", "tearDown", "cleanup")}
    has_cleanup = tape.chance("program", 1, 2, "cleanup?")
    results = {}
    for variant in ("direct-plain", "direct-sync", "deferred-sync"):
        world = World()
        target = TExt(world, "r")
        xlog = []
        deferred = variant.startswith("deferred")

        def end(stage):
            xlog.append(stage)
            k = prog[stage]
            if k == "return":
                return defer.succeed(("v", stage)) if deferred else None
            e = _mk_exc(k, "MK-" + stage)
            if deferred:
                return defer.fail(e)
            raise e

        class Scripted(testtools.TestCase):
            def setUp(self):
                super().setUp()
                if has_cleanup:
                    self.addCleanup(end, "cleanup")
                return end("setUp")

            def test_it(self):
                return end("test")

            def tearDown(self):
                super().tearDown()
                return end("tearDown")

        kw = {} if variant == "direct-plain" else {"runTest": SynchronousDeferredRunTest}
        case = Scripted("test_it", **kw)
        raised = None
        try:
            case.run(target)
        except BaseException as e:   # noqa
            raised = e
        outs = [e.method for e in world.events if e.method in OUTCOMES]
        results[variant] = (outs, xlog, type(raised).__name__)
    base = results["direct-plain"]
    for v in ("direct-sync", "deferred-sync"):
        if results[v] != base:
            out.violate("sync-runner-differs", v + (":outcome" if results[v][0] != base[0] else ":stages" if results[v][1] != base[1] else ":raise"),
                        f"program {prog} cleanup={has_cleanup}: plain RunTest gave {base}, {v} gave {results[v]}")
    return prog, results


def run_one(tape, opts):
    out = Outcome()
    which = tape.weighted("config", [(2, "history"), (1, "sync-runner")], "facet")
    if which == "history":
        ops, trace = run_deferred_history(tape, out)
        out.steps = len(ops)
        out.hhash = digest_of(trace)
        names = [o for o, _ in ops]
        out.nontrivial = any(o in ("fire", "fail") for o in names) and any(o in ("no_result", "succeeded", "failed", "classify", "extract") for o in names)
        for o, st in trace:
            out.probe(f"{o}@{st}")
        if opts.get("want_sample"):
            out.sample = {"facet": "history", "ops": ops, "trace": trace}
    else:
        prog, results = run_sync_runner(tape, out)
        out.steps = 3
        out.hhash = digest_of(sorted(prog.items()), results["direct-plain"][0])
        out.nontrivial = any(v != "return" for v in prog.values())
        out.probe("sync-runner-program")
        if opts.get("want_sample"):
            out.sample = {"facet": "sync-runner", "program": prog, "results": {k: list(v) for k, v in results.items()}}
    out.sim_time = float(out.steps)
    out.ihash = None
    return out
