"""C10 -- StreamToDict, StreamSummary and StreamToExtendedDecorator report each test (keyed by
test id and route code) exactly once -- at its final status, or as incomplete when the run
stops -- with last status, latest tags, first/last timestamps and every attachment's chunks
in arrival order; events without a test id are ignored; StreamSummary's counters and lists
agree."""

from testtools.testresult.real import StreamToDict, StreamSummary, StreamToExtendedDecorator

from simkit.driver import Outcome
from simkit.targets import World, TExt, OUTCOMES
from simkit.tape import digest_of
from simkit import vclock

ID = "C10"
RUNS = {"quick": 160_000, "thorough": 5_000_000}
SIM_TIME_UNIT = "status events delivered"
RULE = (
    "each run = 1..4 simulated workers, each emitting a script of status events for 1..3 test ids drawn from a "
    "3-id x 3-route alphabet (so the same id appears on two routes and ids are re-used after a final), with "
    "interim/final statuses incl. repeated finals and events after a final, file chunks (empty and non-empty, two "
    "file names, mime types), tag sets, explicit or missing timestamps and events without a test id; the seeded "
    "scheduler interleaves the workers' scripts into one stream (this is what ConcurrentStreamTestSuite delivers) and "
    "cuts the run with stopTestRun at a drawn point (the stream analogue of a crash: whatever is in flight must come "
    "out as incomplete); the same stream is fed to all three consumers; distinct = digest of the merged stream's "
    "(id, route, status, has-file) sequence; non-trivial = >=2 workers interleaved and >=1 final status"
)
REAL_STUB = {
    "real": ["_StreamToTestRecord", "_TestRecord", "StreamToDict", "StreamSummary", "StreamToExtendedDecorator",
             "PlaceHolder.run (replay)", "ExtendedToOriginalDecorator", "_make_content_type"],
    "stub": ["workers (scripted event emitters)", "interleaving (seeded merge)", "extended recording target"],
}
ASSUMPTIONS = [
    "events for a key after its final status may be discarded or start a new test (both allowed by StreamResult's contract): either model is accepted",
    "an attachment whose chunks are all empty may be absent or empty",
    "flush order of incomplete tests at stopTestRun is unspecified (compared as a multiset)",
    "'fail' may be listed under errors or failures, but exactly one of them",
]

IDS = ("a", "b", "c", "r0/a", "")   # "r0/a" unrouted vs "a" on route "r0": distinct tests; "" is a legal id (PlaceHolder(""))
ROUTES = (None, "r0", "r1")
STATUSES = (None, "inprogress", "success", "fail", "skip", "xfail", "uxsuccess", "exists")
FINAL = ("success", "fail", "skip", "xfail", "uxsuccess", "exists")
MIMES = (None, "text/plain; charset=utf8", "application/octet-stream", "text/plain; charset=rot13")
STATUS_METHOD = {"success": "addSuccess", "skip": "addSkip", "fail": "addFailure", "xfail": "addExpectedFailure",
                 "uxsuccess": "addUnexpectedSuccess", "unknown": "addFailure", "inprogress": "addFailure"}


def gen(tape, big=False):
    nw = 1 + tape.draw("program", 6 if big else 4, "workers")
    scripts = []
    k = [0]
    for w in range(nw):
        route = ROUTES[tape.draw("program", len(ROUTES), "route")]
        evs = []
        for _ in range(1 + tape.draw("program", 10 if big else 6, "n-events")):
            k[0] += 1
            ev = {"route_code": route}
            ev["test_id"] = None if tape.chance("program", 1, 8, "no-id") else tape.choice("program", IDS, "id")
            ev["test_status"] = tape.weighted("program", [(3, None), (3, "inprogress"), (2, "success"), (2, "fail"), (1, "skip"),
                                                          (1, "xfail"), (1, "uxsuccess"), (1, "exists")], "status")
            if tape.chance("program", 1, 3, "file"):
                # ("reason" and "traceback" are names the summaries give a meaning to)
                ev["file_name"] = tape.choice("program", ("f", "g", "f", "g", "reason", "traceback"), "file-name")
                ev["file_bytes"] = b"" if tape.chance("payload", 1, 4, "empty-chunk") else b"<%d>" % k[0]
                if ev["file_bytes"] and tape.chance("payload", 1, 12, "stray-bytes"):
                    ev["file_bytes"] = b"\xff\xfe<%d>" % k[0]      # does not decode as utf8 text
                ev["eof"] = tape.chance("program", 1, 3, "eof")
                ev["mime_type"] = tape.choice("program", MIMES, "mime")
            if tape.chance("program", 1, 3, "tags"):
                ev["test_tags"] = [t for t in ("t1", "t2") if tape.chance("payload", 1, 2, "tag")]
            if tape.chance("program", 1, 2, "timestamp"):
                ev["timestamp"] = k[0]
            if tape.chance("program", 1, 8, "not-runnable"):
                ev["runnable"] = False
            evs.append(ev)
        scripts.append(evs)
    if tape.draw("program", 200, "bulk-attachments?") == 199:
        # a boundary count: one test receiving hundreds of chunks on two attachments
        route = ROUTES[tape.draw("program", len(ROUTES), "bulk-route")]
        nchunks = tape.choice("program", (255, 256, 300, 520), "bulk-chunks")
        evs = [{"route_code": route, "test_id": "bulk", "test_status": "inprogress", "timestamp": 9000}]
        for i in range(nchunks):
            evs.append({"route_code": route, "test_id": "bulk", "test_status": None, "file_name": "f" if i % 2 else "g",
                        "file_bytes": b"<%d>" % (9000 + i), "eof": False, "mime_type": None})
        if tape.chance("program", 1, 2, "bulk-final"):
            evs.append({"route_code": route, "test_id": "bulk", "test_status": "success"})
        scripts.append(evs)
    return scripts


def merge(tape, scripts):
    """Interleave the workers' scripts; returns (merged, decisions)."""
    idx = [0] * len(scripts)
    merged, decisions = [], []
    while True:
        alive = [i for i in range(len(scripts)) if idx[i] < len(scripts[i])]
        if not alive:
            break
        i = alive[tape.draw("schedule", len(alive), "next-worker")] if len(alive) > 1 else alive[0]
        decisions.append(i)
        merged.append(scripts[i][idx[i]])
        idx[i] += 1
    return merged, decisions


def model(stream, restart_after_final):
    """Reference: returns (reports, flushed) -- lists of record dicts."""
    table, reports, closed = {}, [], set()
    for ev in stream:
        tid = ev.get("test_id")
        if tid is None:
            continue
        key = (tid, ev.get("route_code"))
        if key in closed and not restart_after_final:
            continue
        ts = ev.get("timestamp")
        rec = table.get(key)
        if rec is None:
            rec = table[key] = {"id": tid, "tags": set(), "files": {}, "mime": {}, "status": "unknown", "first": ts, "last": None}
        st = ev.get("test_status")
        if st is not None:
            rec["status"] = st
        rec["last"] = ts
        fn, fb = ev.get("file_name"), ev.get("file_bytes")
        if fn is not None and fb is not None:
            rec["files"].setdefault(fn, []).append(fb)
            if fb and fn not in rec["mime"]:
                rec["mime"][fn] = ev.get("mime_type")
        if ev.get("test_tags") is not None:
            rec["tags"] = set(ev["test_tags"])
        if st is not None and st != "inprogress":
            reports.append(table.pop(key))
            closed.add(key)
    flushed = []
    for rec in table.values():
        rec = dict(rec)
        rec["last"] = None
        flushed.append(rec)
    return reports, flushed


def _norm_model(rec):
    files = {n: b"".join(ch) for n, ch in rec["files"].items()}
    return (rec["id"], rec["status"], frozenset(rec["tags"]), rec["first"], rec["last"],
            tuple(sorted((n, b) for n, b in files.items() if b)))


def _norm_dict(d):
    files = {n: b"".join(c.iter_bytes()) for n, c in d["details"].items()}
    ts = [None if t is None else t for t in d["timestamps"]]
    return (d["id"], d["status"], frozenset(d["tags"]), _ts(ts[0]), _ts(ts[1]),
            tuple(sorted((n, b) for n, b in files.items() if b)))


def _ts(t):
    if t is None:
        return None
    return int(round((t - vclock.explicit_time(0)).total_seconds()))


DECOY_STREAM = [
    dict(test_id="dz", test_status="inprogress", timestamp=vclock.explicit_time(5)),
    dict(test_id="dz", file_name="log", file_bytes=b"decoy", mime_type="text/plain"),
    dict(test_id="dy", route_code="rz", test_status="fail", test_tags={"dk"}),
    dict(test_id="dz", test_status="success"),
    dict(test_id="dw", test_status="inprogress"),
]


def _decoy_consumer(name):
    if name == "StreamToDict":
        got = []
        return StreamToDict(got.append), (lambda: [_norm_dict(d) for d in got])
    if name == "StreamSummary":
        sm = StreamSummary()
        return sm, (lambda: (sm.testsRun, sorted(c.id() for c, _ in sm.errors + sm.failures), len(sm.skipped), sm.wasSuccessful()))
    w = World()
    return StreamToExtendedDecorator(TExt(w, "decoy-ext")), (lambda: [(e.method, e.test_id) for e in w.events])


def run_one(tape, opts):
    out = Outcome()
    scripts = gen(tape, big=opts.get("tier") == "thorough")
    merged, decisions = merge(tape, scripts)
    cut = None
    if tape.chance("faults", 1, 3, "cut-run"):
        cut = tape.draw("faults", len(merged) + 1, "cut-at")
        out.plan("stopTestRun-mid-stream")
    stream = merged if cut is None else merged[:cut]
    if cut is not None and cut < len(merged):
        out.fire("stopTestRun-mid-stream")

    dict_reports = []
    to_dict = StreamToDict(dict_reports.append)
    summary = StreamSummary()
    world = World()
    target = TExt(world, "ext")
    to_ext = StreamToExtendedDecorator(target)
    consumers = (("StreamToDict", to_dict), ("StreamSummary", summary), ("StreamToExtendedDecorator", to_ext))
    # a second consumer of the same class, alive at the same time and fed its own events in between
    with_decoy = tape.chance("config", 1, 3, "decoy-consumer")
    for name, c in consumers:
        try:
            decoy = view = reference = None
            if with_decoy:
                alone, view_alone = _decoy_consumer(name)
                alone.startTestRun()
                for dev in DECOY_STREAM:
                    alone.status(**dev)
                alone.stopTestRun()
                reference = view_alone()
                decoy, view = _decoy_consumer(name)
                decoy.startTestRun()
            c.startTestRun()
            for i, ev in enumerate(stream):
                kw = dict(ev)
                if kw.get("test_tags") is not None:
                    kw["test_tags"] = set(kw["test_tags"])
                if kw.get("timestamp") is not None:
                    kw["timestamp"] = vclock.explicit_time(kw["timestamp"])
                c.status(**kw)
                if decoy is not None and i < len(DECOY_STREAM):
                    decoy.status(**DECOY_STREAM[i])
            if decoy is not None:
                for dev in DECOY_STREAM[len(stream):]:
                    decoy.status(**dev)
            c.stopTestRun()
            if decoy is not None:
                decoy.stopTestRun()
                if view() != reference:
                    out.violate("consumers-interfere", name, f"a second {name} fed {DECOY_STREAM} reported {view()} next to the main one, {reference} alone")
                out.probe("decoy-consumer")
        except Exception as e:
            import traceback
            out.violate("consumer-raised", f"{name}:{type(e).__name__}", traceback.format_exc()[-1200:])
    if out.violations:
        return _finish(out, tape, scripts, merged, decisions, cut, opts, [])

    candidates = []
    for restart in (True, False):
        reports, flushed = model(stream, restart)
        candidates.append((restart, reports, flushed))

    # ---- StreamToDict
    ok = False
    got = [_norm_dict(d) for d in dict_reports]
    why = ""
    for restart, reports, flushed in candidates:
        want_r = [_norm_model(r) for r in reports]
        want_f = sorted(map(repr, (_norm_model(r) for r in flushed)))
        if got[:len(want_r)] == want_r and sorted(map(repr, got[len(want_r):])) == want_f:
            ok = True
            break
        why = f"expected reports {want_r} then flush (any order) {want_f}"
    if not ok:
        wr = [_norm_model(r) for r in candidates[0][1]]
        kind = "report-mismatch"
        key = "count" if len(got) != len(wr) + len(candidates[0][2]) else "content"
        out.violate(kind, "StreamToDict:" + key, f"stream {stream}\ngot {got}\n{why}")

    # ---- StreamSummary
    sm_ok = False
    for restart, reports, flushed in candidates:
        allr = [r for r in reports + flushed if r["status"] != "exists"]
        want_run = len(allr)
        buckets = {"skip": 0, "fail": 0, "xfail": 0, "uxsuccess": 0, "incomplete": 0}
        for r in allr:
            s = r["status"]
            if s in ("unknown", "inprogress"):
                buckets["incomplete"] += 1
            elif s in buckets:
                buckets[s] += 1
        got_fail = len(summary.errors) + len(summary.failures)
        if (summary.testsRun == want_run and len(summary.skipped) == buckets["skip"]
                and got_fail == buckets["fail"] + buckets["incomplete"]
                and len(summary.expectedFailures) == buckets["xfail"]
                and len(summary.unexpectedSuccesses) == buckets["uxsuccess"]):
            sm_ok = True
            bad = buckets["fail"] + buckets["incomplete"]
            if bad and summary.wasSuccessful():
                out.violate("summary-verdict", "successful-despite-fail-or-incomplete", f"stream {stream}")
            if not bad and not buckets["uxsuccess"] and not summary.wasSuccessful():
                out.violate("summary-verdict", "unsuccessful-without-cause", f"stream {stream}")
            # ids land in the right lists
            ids_err = sorted((c.id() for c, _ in summary.errors + summary.failures), key=repr)
            want_err = sorted((r["id"] for r in allr if r["status"] in ("fail", "unknown", "inprogress")), key=repr)
            if ids_err != want_err:
                out.violate("summary-bucket", "errors", f"got {ids_err} want {want_err}")
            if sorted((c.id() for c, _ in summary.skipped), key=repr) != sorted((r["id"] for r in allr if r["status"] == "skip"), key=repr):
                out.violate("summary-bucket", "skipped", f"stream {stream}")
            if sorted((c.id() for c in summary.unexpectedSuccesses), key=repr) != sorted((r["id"] for r in allr if r["status"] == "uxsuccess"), key=repr):
                out.violate("summary-bucket", "unexpectedSuccesses", f"stream {stream}")
            break
    if not sm_ok:
        restart, reports, flushed = candidates[0]
        allr = [r for r in reports + flushed if r["status"] != "exists"]
        out.violate("summary-count", "testsRun" if summary.testsRun != len(allr) else "lists",
                    f"stream {stream}\ntestsRun {summary.testsRun} errors {len(summary.errors)} failures {len(summary.failures)} skipped {len(summary.skipped)} "
                    f"xfail {len(summary.expectedFailures)} uxsuccess {len(summary.unexpectedSuccesses)}; model statuses {[r['status'] for r in allr]}")

    # ---- StreamToExtendedDecorator (exists events are outside its contract)
    ext_stream = [ev for ev in stream if ev.get("test_status") != "exists"]
    brackets = []
    cur = None
    for e in world.events:
        if e.method == "startTest":
            cur = {"id": e.test_id, "calls": [], "t0": (e.data or {}).get("time")}
        elif e.method in OUTCOMES and cur is not None:
            cur["calls"].append(e)
        elif e.method == "stopTest" and cur is not None:
            cur["t1"] = (e.data or {}).get("time")
            brackets.append(cur)
            cur = None
    # "... or as incomplete when the run stops": the wrapped result hears of every test inside its run
    meths = [e.method for e in world.events]
    if meths.count("startTestRun") != 1 or meths.count("stopTestRun") != 1 or meths[0] != "startTestRun" or meths[-1] != "stopTestRun":
        late = [m for m in meths[meths.index("stopTestRun") + 1:]] if "stopTestRun" in meths else []
        out.violate("report-mismatch", "StreamToExtendedDecorator:run-bracket" + (":reports-after-stopTestRun" if late else ""),
                    f"the wrapped result saw {meths[:3]} ... {meths[-4:]}; after its stopTestRun: {late[:6]}")
    ext_ok = False
    why = ""
    for restart in (True, False):
        reports, flushed = model(ext_stream, restart)
        want = [(r["id"], STATUS_METHOD[r["status"]]) for r in reports]
        wantf = [(r["id"], STATUS_METHOD[r["status"]]) for r in flushed]
        got = [(b["id"], b["calls"][0].method if len(b["calls"]) == 1 else f"{len(b['calls'])}-outcomes") for b in brackets]
        if got[:len(want)] == want and sorted(got[len(want):], key=repr) == sorted(wantf, key=repr):
            ext_ok = True
            # bytes of details, in order, for the in-order part
            for b, r in zip(brackets, reports):
                det = (b["calls"][0].data or {}).get("details") or {}
                for n, chunks in r["files"].items():
                    data = b"".join(chunks)
                    if data and (n not in det or det[n]["bytes"] != data):
                        out.violate("report-mismatch", "StreamToExtendedDecorator:detail-bytes", f"{n}: {det.get(n)} want {data!r}")
                # "first and last timestamps": the wrapped result's clock at startTest / stopTest is this test's
                # own first / last timestamp - not one left over from the test reported before it
                want0 = None if r["first"] is None else vclock.explicit_time(r["first"])
                if b["t0"] != want0:
                    out.violate("report-mismatch", "StreamToExtendedDecorator:start-time" + (":stale-clock" if r["first"] is None else ""),
                                f"{r['id']}: started at {b['t0']}, its first timestamp is {r['first']}; stream {ext_stream}")
                if r["last"] is not None and b.get("t1") != vclock.explicit_time(r["last"]):
                    out.violate("report-mismatch", "StreamToExtendedDecorator:stop-time",
                                f"{r['id']}: stopped at {b.get('t1')}, its last timestamp is {r['last']}")
                if b["calls"][0].data and b["calls"][0].data.get("tags") is not None and r["tags"] - {""} != set(b["calls"][0].data["tags"]):
                    out.violate("report-mismatch", "StreamToExtendedDecorator:tags", f"{r['id']}: target saw {sorted(b['calls'][0].data['tags'])} want {sorted(r['tags'])}")
            break
        why = f"brackets {got}, expected {want} then {wantf}"
    if not ext_ok:
        out.violate("report-mismatch", "StreamToExtendedDecorator:brackets", f"stream {ext_stream}\n{why}")
    return _finish(out, tape, scripts, merged, decisions, cut, opts, dict_reports)


def _finish(out, tape, scripts, merged, decisions, cut, opts, dict_reports):
    finals = sum(1 for ev in merged if ev.get("test_status") in FINAL and ev.get("test_id") is not None)
    keys = [(ev.get("test_id"), ev.get("route_code")) for ev in merged if ev.get("test_id") is not None]
    seen_final = set()
    for ev in merged:
        k = (ev.get("test_id"), ev.get("route_code"))
        if ev.get("test_id") is None:
            out.probe("event-without-test-id")
            continue
        if k in seen_final:
            out.probe("event-after-final")
        if ev.get("test_status") in FINAL:
            seen_final.add(k)
    ids_by_route = {}
    for tid, rc in keys:
        ids_by_route.setdefault(tid, set()).add(rc)
    if any(len(v) > 1 for v in ids_by_route.values()):
        out.probe("same-id-on-two-routes")
    out.steps = len(merged)
    out.sim_time = float(len(merged))
    out.ihash = digest_of(decisions, cut)
    out.hhash = digest_of([(ev.get("test_id"), ev.get("route_code"), ev.get("test_status"), ev.get("file_name") is not None) for ev in merged], cut)
    out.nontrivial = len(set(decisions)) >= 2 and finals >= 1
    if opts.get("want_sample"):
        out.sample = {"worker_scripts": [[{k: (v.decode("latin-1") if isinstance(v, bytes) else v) for k, v in ev.items()} for ev in s] for s in scripts],
                      "merge_decisions": decisions, "cut_at": cut,
                      "dict_reports": [(d["id"], d["status"]) for d in dict_reports]}
    return out
