"""C04 -- on testtools' own results wasSuccessful() is false exactly when an error, failure or
unexpected success has been reported since the last startTestRun; TextTestResult's summary
and testtools.run's exit status agree with it; with failfast set shouldStop becomes true at
the first such outcome and not earlier; stop() on any adapter or multiplexer reaches the
underlying result(s) so that suites stop dispatching tests."""

import io
import re
import warnings
import sys
import threading
import types
import unittest

import testtools
from testtools import run as tt_run
from testtools.testresult.real import (
    TextTestResult, MultiTestResult, ThreadsafeForwardingResult, ExtendedToOriginalDecorator,
    TestResultDecorator, Tagger, ExtendedToStreamDecorator,
)

from simkit.driver import Outcome
from simkit.targets import World, TStream, OUTCOMES
from simkit.tape import digest_of
from simkit import vclock, pipeline as pl
from simkit.lifecycle import LoggingTestResult

ID = "C04"
RUNS = {"quick": 320_000, "thorough": 2_000_000}
SIM_TIME_UNIT = "reporter calls / tests dispatched"
RULE = (
    "each run = one of three scenarios: (history) a scripted history of outcomes over 0..6 tests with "
    "startTestRun/stopTestRun boundaries and an optional stop() on a drawn layer, fed through a drawn stack of "
    "ExtendedToOriginalDecorator / MultiTestResult / TestResultDecorator / Tagger / ThreadsafeForwardingResult over "
    "TestResult and TextTestResult terminals, checking wasSuccessful() on every layer after every call and the "
    "TextTestResult summary at stopTestRun; (suite) a real unittest.TestSuite of scripted real TestCases and "
    "PlaceHolders run with such a stack (or ExtendedToStreamDecorator over a sink), failfast off / set at "
    "construction before wrapping / set on the outermost adapter after wrapping, optional stop() from inside a test; "
    "(run) testtools.run executed in-process on a synthetic module with StringIO stdout, SystemExit captured; virtual "
    "clock; distinct = digest of (scenario, stack shape, outcome sequence, failfast mode, stop position); non-trivial = "
    ">=1 bad outcome or a stop() with a test still to come"
)
REAL_STUB = {
    "real": ["TestResult / TextTestResult (verdict, lists, summary)", "MultiTestResult", "ThreadsafeForwardingResult", "ExtendedToOriginalDecorator",
             "TestResultDecorator / Tagger", "ExtendedToStreamDecorator + StreamFailFast + TestControl", "testtools.run.TestProgram / TestToolsTestRunner",
             "unittest.TestSuite.run", "TestCase.run / PlaceHolder.run"],
    "stub": ["reporter / test bodies (scripted)", "stream sink", "wall clock (virtual)", "semaphore (real, uncontended)"],
}
ASSUMPTIONS = [
    "failfast clauses are asserted for runs of real TestCases/PlaceHolders only (failfast lives where ExtendedToOriginalDecorator sits, which TestCase.run/PlaceHolder.run always interpose)",
    "'set after wrapping' is applied to layers that expose a failfast property (MultiTestResult, ExtendedToOriginalDecorator, ExtendedToStreamDecorator, the results themselves)",
    "wasSuccessful() is compared on testtools-owned results only, as the statement restricts it",
]

BAD = ("addFailure", "addError", "addUnexpectedSuccess")
KINDS = ("pass", "fail", "error", "skip", "xfail", "uxsuccess")
BAD_KINDS = ("fail", "error", "uxsuccess")


# ------------------------------------------------------------------------------- stacks
def gen_stack(tape, depth=0):
    if depth >= 2:
        return [tape.choice("config", ("result", "text"), "terminal")]
    k = tape.weighted("config", [(3, "result"), (3, "text"), (3, "e2o"), (3, "multi"), (1, "trd"), (1, "tagger"), (2, "tfr")], "layer")
    if k in ("result", "text"):
        return [k]
    if k == "multi":
        return ["multi"] + [gen_stack(tape, depth + 1) for _ in range(1 + tape.draw("config", 2, "fanout"))]
    return [k, gen_stack(tape, depth + 1)]


class Stack:
    def __init__(self):
        self.layers = []      # (kind, obj, depth)
        self.terminals = []   # (kind, obj, stream)
        self.owned = []       # testtools-owned objects with wasSuccessful
        self.keep = []


def build(spec, world, st, failfast_ctor, depth=0):
    k = spec[0]
    ff = failfast_ctor(len(st.terminals)) if callable(failfast_ctor) else failfast_ctor
    if k == "result":
        obj = LoggingTestResult(world, f"result#{len(st.terminals)}", failfast=ff)
        st.terminals.append((k, obj, None))
    elif k == "text":
        stream = io.StringIO()
        obj = TextTestResult(stream, failfast=ff)
        st.terminals.append((k, obj, stream))
    else:
        kids = [build(s, world, st, failfast_ctor, depth + 1) for s in (spec[1:] if k == "multi" else spec[1:2])]
        if k == "e2o":
            obj = ExtendedToOriginalDecorator(kids[0])
        elif k == "multi":
            obj = MultiTestResult(*kids)
        elif k == "trd":
            obj = TestResultDecorator(kids[0])
        elif k == "tagger":
            obj = Tagger(kids[0], {"x"}, set())
        elif k == "tfr":
            obj = ThreadsafeForwardingResult(kids[0], threading.Semaphore(1))
        _CHILDREN[id(obj)] = (obj, kids)     # (the adapter itself is kept so that its id stays its own)
        st.keep.append(obj)
    st.layers.append((k, obj, depth))
    st.owned.append((k, obj))
    return obj


# ------------------------------------------------------------------------------- scenario: history
SUMMARY_RE = re.compile(r"\nRan (\d+) tests? in -?[0-9.]+s\n(OK|FAILED \(failures=(\d+)\))\n$")


def scenario_history(tape, out):
    spec = gen_stack(tape)
    hist = pl.gen_history(tape, max_tests=6, extras=False, tags=False, times=True, test_kinds=("testcase", "placeholder"),
                          binary_details=False)
    stop_at = None
    if tape.chance("program", 1, 3, "explicit-stop"):
        stop_at = tape.draw("program", len(hist) + 1, "stop-at")
    world = World()
    st = Stack()
    top = build(spec, world, st, False)
    stop_layer = tape.draw("program", len(st.layers), "stop-layer") if stop_at is not None else None
    rep = pl.Reporter(top, hist)
    bad = 0
    started = 0
    counts = {"addError": 0, "addFailure": 0, "addUnexpectedSuccess": 0}
    stopped = False
    i = 0
    text_terms = [(obj, stream) for k, obj, stream in st.terminals if k == "text"]
    in_run_since = {id(obj): 0 for obj, _ in text_terms}
    while True:
        if stop_at is not None and i == stop_at and not stopped:
            try:
                st.layers[stop_layer][1].stop()
            except Exception as e:   # noqa
                out.violate("stop-not-propagated", f"stop-raised:{type(e).__name__}", f"stop() on {st.layers[stop_layer][0]} in {spec}: {e!r}")
            stopped = True
            _check_stop(out, st, spec, st.layers[stop_layer])
            if tape.chance("program", 1, 3, "late-wrap"):
                # one more adapter put around an already stopped result (what ConcurrentTestSuite does for a
                # sub-suite that a lazy make_tests yields late): wrapping is not a reset
                how = tape.choice("program", ("tfr", "e2o", "multi", "tagger", "trd"), "late-wrapper")
                under = st.layers[tape.draw("program", len(st.layers), "late-wrap-over")][1]
                try:
                    late = {"tfr": lambda: ThreadsafeForwardingResult(under, threading.Semaphore(1)),
                            "e2o": lambda: ExtendedToOriginalDecorator(under),
                            "multi": lambda: MultiTestResult(under),
                            "tagger": lambda: Tagger(under, {"late"}, set()),
                            "trd": lambda: TestResultDecorator(under)}[how]()
                except Exception as e:   # noqa
                    out.violate("adapter-raised", f"late-wrap:{how}:{type(e).__name__}", f"wrapping {type(under).__name__} in {how} raised {e!r}; stack {spec}")
                else:
                    before = len(out.violations)
                    _check_stop(out, st, spec, st.layers[stop_layer])
                    for v in out.violations[before:]:
                        v.key = "after-late-wrap:" + v.key
                    if any(t.shouldStop for t in _terminals_below(under)) and not late.shouldStop:
                        out.violate("stop-not-propagated", f"after-late-wrap:{how}:wrapper-reads-false", f"{how} built over a stopped {type(under).__name__} reads shouldStop False; stack {spec}")
                out.probe("late-wrap:" + how)
        try:
            c = rep.step()
        except Exception as e:   # noqa
            import traceback
            out.violate("adapter-raised", type(e).__name__, f"{hist[rep.i - 1]} on {spec}: {traceback.format_exc()[-500:]}")
            return ("history", spec, None)
        if c is None:
            break
        i += 1
        if c[0] == "startTestRun":
            bad = 0
            started = 0
            counts = dict.fromkeys(counts, 0)
            stopped_reset = True
            for obj, stream in text_terms:
                in_run_since[id(obj)] = len(stream.getvalue())
        elif c[0] == "startTest":
            started += 1
        elif c[0] == "outcome" and c[3] in BAD:
            bad += 1
            counts[c[3]] += 1
        # verdict on every testtools-owned layer, after every call
        for k, obj in st.owned:
            try:
                ws = obj.wasSuccessful()
            except Exception as e:   # noqa
                out.violate("verdict-mismatch", f"{k}:raised", f"wasSuccessful() on {k} raised {e!r} after {c}")
                continue
            if ws != (bad == 0):
                out.violate("verdict-mismatch", f"{k}:{'true-despite-bad' if ws else 'false-without-cause'}",
                            f"after {c}: {k}.wasSuccessful() is {ws} with {bad} bad outcome(s) since startTestRun; stack {spec}; history so far {hist[:rep.i]}")
                return ("history", spec, None)
        if c[0] == "stopTestRun":
            for obj, stream in text_terms:
                text = stream.getvalue()[in_run_since[id(obj)]:]
                m = SUMMARY_RE.search(text)
                if not m:
                    out.violate("summary-mismatch", "format", f"TextTestResult wrote {text[-300:]!r}")
                    continue
                ran, verdict, nfail = int(m.group(1)), m.group(2), m.group(3)
                if ran != started:
                    out.violate("summary-mismatch", "test-count", f"summary says Ran {ran}, {started} tests were started since startTestRun; stack {spec}")
                if (verdict == "OK") != (bad == 0):
                    out.violate("summary-mismatch", "verdict", f"summary {verdict!r} with {bad} bad outcomes")
                if nfail is not None and int(nfail) != bad:
                    out.violate("summary-mismatch", "failure-total", f"FAILED (failures={nfail}) with {bad} bad outcomes")
                for label, method in (("ERROR", "addError"), ("FAIL", "addFailure"), ("UNEXPECTED SUCCESS", "addUnexpectedSuccess")):
                    n = len(re.findall(r"^={70}\n%s: " % label, text, re.M))
                    if n != counts[method]:
                        out.violate("summary-mismatch", "sections:" + label, f"{n} {label} sections for {counts[method]} such outcomes; text {text[-400:]!r}")
                in_run_since[id(obj)] = len(stream.getvalue())
    return ("history", spec, (bad, stop_at is not None))


def _check_stop(out, st, spec, layer):
    """After stop() on `layer`: every terminal below it and every layer above those reads shouldStop True."""
    k, obj, depth = layer
    below = _terminals_below(obj)
    for t in below:
        if not t.shouldStop:
            out.violate("stop-not-propagated", f"{k}:terminal-not-stopped", f"stop() on {k} did not reach {type(t).__name__}; stack {spec}")
    for lk, lobj, ld in st.layers:
        tb = _terminals_below(lobj)
        if any(t in below for t in tb):
            try:
                ss = lobj.shouldStop
            except Exception as e:   # noqa
                out.violate("stop-not-propagated", f"{lk}:shouldStop-raised", repr(e))
                continue
            if not ss:
                out.violate("stop-not-propagated", f"{lk}:shouldStop-false-above-stopped-result",
                            f"after stop() on {k}, {lk}.shouldStop is {ss!r}; stack {spec}")


_CHILDREN = {}    # id(adapter built by build()) -> the objects it was built over (no peeking into private attributes)


def _terminals_below(obj):
    kids = _CHILDREN.get(id(obj))
    if kids is None:
        return [obj]
    out = []
    for r in kids[1]:
        out += _terminals_below(r)
    return out


# ------------------------------------------------------------------------------- scenario: suite
def make_case(kind, tid, hooks):
    class T(testtools.TestCase):
        def test_it(self):
            hooks.append(("run", tid))
            for h in list(hooks.pre.get(tid, ())):
                h()
            if kind == "fail":
                self.fail("scripted")
            if kind == "error":
                raise RuntimeError("scripted")
            if kind == "skip":
                self.skipTest("scripted")
            if kind == "xfail":
                self.expectFailure("scripted", self.fail, "x")
            if kind == "uxsuccess":
                self.expectFailure("scripted", lambda: None)

    T.__name__ = T.__qualname__ = "T_" + tid
    return testtools.clone_test_with_new_id(T("test_it"), tid)


def make_std_case(kind, tid, hooks):
    """A plain stdlib unittest.TestCase: it talks to the result directly, nothing interposed."""

    def body(self):
        hooks.append(("run", tid))
        for h in list(hooks.pre.get(tid, ())):
            h()
        if kind in ("fail", "xfail"):
            self.fail("scripted")
        if kind == "error":
            raise RuntimeError("scripted")
        if kind == "skip":
            self.skipTest("scripted")

    if kind in ("xfail", "uxsuccess"):
        body = unittest.expectedFailure(body)
    T = type("S_" + tid, (unittest.TestCase,), {"test_it": body, "id": lambda self: tid})
    return T("test_it")


class _Hooks(list):
    def __init__(self):
        super().__init__()
        self.pre = {}


PH_METHOD = {"pass": "addSuccess", "fail": "addFailure", "error": "addError", "skip": "addSkip", "xfail": "addExpectedFailure",
             "uxsuccess": "addUnexpectedSuccess"}


def scenario_suite(tape, out):
    stream_variant = tape.chance("config", 1, 5, "stream-variant")
    spec = ["e2stream"] if stream_variant else gen_stack(tape)
    mode = tape.weighted("config", [(2, "off"), (3, "before-wrap"), (3, "after-wrap"), (2, "before-wrap-some"), (2, "mid-run")], "failfast")
    some_bits = [tape.chance("config", 1, 2, "failfast-on-this-terminal") for _ in range(4)]
    if mode == "before-wrap-some" and not any(some_bits):
        some_bits[0] = True
    if mode == "before-wrap-some" and stream_variant:
        mode = "before-wrap"
    n = tape.draw("program", 7, "n-tests")
    kinds = [tape.weighted("program", [(4, "pass"), (1, "fail"), (1, "error"), (1, "skip"), (1, "xfail"), (1, "uxsuccess")], "kind") for _ in range(n)]
    holders = [tape.chance("program", 1, 4, "placeholder") for _ in range(n)]
    stdlib = [tape.chance("program", 1, 4, "stdlib-testcase") for _ in range(n)]
    stop_in = tape.draw("program", n, "stop-in-test") if (n and tape.chance("program", 1, 4, "stop-from-test")) else None
    world = World()
    hooks = _Hooks()
    st = Stack()
    if stream_variant:
        sink = TStream(world, "sink")
        top = ExtendedToStreamDecorator(sink)
        if mode not in ("off", "mid-run"):
            top.failfast = True
        st.layers.append(("e2stream", top, 0))
    else:
        if mode == "before-wrap-some":
            top = build(spec, world, st, lambda i: some_bits[i % 4])
            if not any(some_bits[i % 4] for i in range(len(st.terminals))):
                mode = "off"
        else:
            top = build(spec, world, st, mode == "before-wrap")
        settable = [(k, o) for k, o, d in st.layers if d == 0 and k in ("multi", "e2o", "result", "text")]
        if mode in ("after-wrap", "mid-run") and not settable:
            mode = "off"
        if mode == "after-wrap":
            settable[0][1].failfast = True
    stop_layer = None
    if stop_in is not None:
        stop_layer = st.layers[tape.draw("program", len(st.layers), "stop-layer")]
        hooks.pre["s%d" % stop_in] = [lambda: stop_layer[1].stop()]
    tests = []
    for i, (k, ph) in enumerate(zip(kinds, holders)):
        tid = "s%d" % i
        if ph and stop_in != i:
            t = testtools.PlaceHolder(tid, outcome=PH_METHOD[k])
            orig = t.run

            def run(result=None, orig=orig, tid=tid):
                hooks.append(("run", tid))
                return orig(result)

            t.run = run
            t.__call__ = run
            tests.append(_Callable(t, run))
        elif stdlib[i]:
            tests.append(make_std_case(k, tid, hooks))
        else:
            tests.append(make_case(k, tid, hooks))
    if any(stdlib):
        out.probe("stdlib-testcase-in-suite")
    suite = unittest.TestSuite(tests)
    # optionally a first run on the same result objects that ends stopped: startTestRun must give a
    # pristine result again (shouldStop false until the first bad outcome of *this* run)
    first_run = tape.weighted("program", [(3, None), (1, "failfast-stop"), (1, "explicit-stop")], "earlier-run")
    if stream_variant or (first_run == "failfast-stop" and mode == "off"):
        first_run = None
    try:
        if first_run:
            top.startTestRun()
            pre = testtools.PlaceHolder("earlier", outcome="addFailure" if first_run == "failfast-stop" else "addSuccess")
            pre.run(top)
            if first_run == "explicit-stop":
                top.stop()
            top.stopTestRun()
        top.startTestRun()
        if mode == "mid-run":
            # failfast switched on once the run is under way
            (top if stream_variant else settable[0][1]).failfast = True
        suite.run(top)
        top.stopTestRun()
    except Exception as e:   # noqa
        import traceback
        out.violate("adapter-raised", "suite:" + type(e).__name__, f"stack {spec} mode {mode}: {traceback.format_exc()[-600:]}")
        return ("suite", spec, None)
    if first_run:
        out.probe("second-run-after-stopped-run")
    ran = [tid for what, tid in hooks if what == "run"]
    # model
    expect = []
    for i, k in enumerate(kinds):
        expect.append("s%d" % i)
        if stop_in == i:
            break
        if mode != "off" and k in BAD_KINDS:
            break
    if ran != expect:
        if len(ran) > len(expect):
            first_extra = kinds[len(expect) - 1] if expect else None
            why = "stop-from-test" if (stop_in is not None and len(expect) - 1 == stop_in) else "failfast"
            key = f"{why}:{mode}:" + ("stream" if stream_variant else _shape(spec))
            out.violate("failfast-late" if why == "failfast" else "stop-not-propagated", key,
                        f"tests dispatched {ran}, expected {expect}; kinds {kinds}; failfast {mode}; stop in {stop_in} on {stop_layer and stop_layer[0]}; stack {spec}")
        else:
            out.violate("failfast-early", f"{mode}:" + ("after-stopped-run:" if first_run else "") + ("stream" if stream_variant else _shape(spec)),
                        f"tests dispatched {ran}, expected {expect}; kinds {kinds}; failfast {mode}; earlier run {first_run}; stack {spec}")
    # verdict at the end
    badn = sum(1 for tid in ran if kinds[int(tid[1:])] in BAD_KINDS)
    if not stream_variant:
        for k, obj in st.owned:
            if obj.wasSuccessful() != (badn == 0):
                out.violate("verdict-mismatch", f"suite:{k}", f"{k}.wasSuccessful() is {obj.wasSuccessful()} after kinds {[kinds[int(t[1:])] for t in ran]}; stack {spec}")
                break
    return ("suite", spec, (badn, mode, stop_in is not None and stop_in < n - 1))


class _Callable:
    """unittest.TestSuite wants callables with countTestCases; PlaceHolder instances are called via __call__."""

    def __init__(self, ph, run):
        self._ph = ph
        self._run = run

    def __call__(self, result=None):
        return self._run(result)

    def run(self, result=None):
        return self._run(result)

    def countTestCases(self):
        return 1

    def id(self):
        return self._ph.id()


def _shape(spec):
    return spec[0] + ("(" + ",".join(_shape(s) for s in spec[1:]) + ")" if len(spec) > 1 else "")


# ------------------------------------------------------------------------------- scenario: testtools.run
def scenario_run(tape, out):
    n = tape.draw("program", 6, "n-tests")
    kinds = [tape.weighted("program", [(4, "pass"), (1, "fail"), (1, "error"), (1, "skip"), (1, "xfail"), (1, "uxsuccess")], "kind") for _ in range(n)]
    failfast = tape.chance("config", 1, 3, "failfast-flag")
    ran = []
    body = {}
    for i, k in enumerate(kinds):
        def test(self, k=k, i=i):
            ran.append(i)
            if k == "fail":
                self.fail("scripted")
            if k == "error":
                raise RuntimeError("scripted")
            if k == "skip":
                self.skipTest("scripted")
            if k == "xfail":
                self.expectFailure("scripted", self.fail, "x")
            if k == "uxsuccess":
                self.expectFailure("scripted", lambda: None)
        body["test_%02d" % i] = test
    mod = types.ModuleType("verif_synthetic_tests")
    cls = type("SyntheticTests", (testtools.TestCase,), body)
    cls.__module__ = mod.__name__
    mod.SyntheticTests = cls
    # the module may hand the loader a suite of its own making (load_tests protocol): a FixtureSuite, whose
    # run() does not return the result
    wrapped = tape.chance("config", 1, 4, "load_tests-returns-a-FixtureSuite")
    if wrapped:
        import fixtures as _fx
        from testtools.testsuite import FixtureSuite

        def load_tests(loader, tests, pattern):
            return FixtureSuite(_fx.Fixture(), [cls("test_%02d" % i) for i in range(n)])

        mod.load_tests = load_tests
    stdout = io.StringIO()
    code = None
    argv = ["prog"] + (["-f"] if failfast else [])
    saved = sys.modules.get(mod.__name__)
    sys.modules[mod.__name__] = mod
    try:
        try:
            tt_run.TestProgram(module=mod, argv=argv, stdout=stdout,
                               testRunner=lambda **kw: tt_run.TestToolsTestRunner(**dict(kw, stdout=stdout)))
            code = "returned"
        except SystemExit as e:
            code = e.code
        except Exception as e:   # noqa
            import traceback
            out.violate("exit-status", "run-raised:" + type(e).__name__, traceback.format_exc()[-600:])
            return ("run", None, None)
    finally:
        if saved is None:
            sys.modules.pop(mod.__name__, None)
        else:
            sys.modules[mod.__name__] = saved
    expect = []
    for i, k in enumerate(kinds):
        expect.append(i)
        if failfast and k in BAD_KINDS:
            break
    bad = sum(1 for i in ran if kinds[i] in BAD_KINDS)
    want_code = 1 if bad else 0
    if code not in (want_code, bool(want_code)):
        out.violate("exit-status", f"code={code!r};bad={bad > 0}", f"kinds {kinds} failfast {failfast}: exit status {code!r}, expected {want_code}; output tail {stdout.getvalue()[-200:]!r}")
    if ran != expect:
        out.violate("failfast-late" if len(ran) > len(expect) else "failfast-early", "testtools.run",
                    f"ran {ran} expected {expect}; kinds {kinds}; failfast {failfast}")
    text = stdout.getvalue()
    m = SUMMARY_RE.search(text)
    if not m:
        out.violate("summary-mismatch", "run:format", f"{text[-300:]!r}")
    else:
        if int(m.group(1)) != len(ran):
            out.violate("summary-mismatch", "run:test-count", f"Ran {m.group(1)} but {len(ran)} ran")
        if (m.group(2) == "OK") != (bad == 0):
            out.violate("summary-mismatch", "run:verdict", f"{m.group(2)!r} with {bad} bad outcomes")
        if m.group(3) is not None and int(m.group(3)) != bad:
            out.violate("summary-mismatch", "run:failure-total", f"failures={m.group(3)} with {bad} bad outcomes")
    if wrapped:
        out.probe("run:load_tests-FixtureSuite")
    return ("run", None, (bad, failfast))


# ------------------------------------------------------------------------------- scenario: old-style results
def scenario_oldstyle(tape, out):
    """Stop control over a result that has neither stop() nor shouldStop (a Twisted-style reporter): the
    adapter keeps the flag itself - it must become true on stop()/failfast and a new run must start
    with it false again."""
    from simkit.targets import TTwisted

    def gen(depth=0):
        k = tape.weighted("config", [(3, "e2o"), (3, "multi"), (2, "tfr")] + ([(3, "old")] if depth else []), "oldstyle-layer")
        if k == "old" or depth >= 3:
            return ["old"]
        if k == "multi":
            return ["multi", gen(depth + 1)] + ([["result"]] if tape.chance("config", 1, 2, "second-child") else [])
        return [k, gen(depth + 1)]

    def make(spec, world):
        k = spec[0]
        if k == "old":
            return TTwisted(world, "old#%d" % world.tick())
        if k == "result":
            return LoggingTestResult(world, "result#%d" % world.tick())
        kids = [make(x, world) for x in spec[1:]]
        if k == "e2o":
            return ExtendedToOriginalDecorator(kids[0])
        if k == "multi":
            return MultiTestResult(*kids)
        return ThreadsafeForwardingResult(kids[0], threading.Semaphore(1))

    spec = gen()
    world = World()
    top = make(spec, world)
    failfast = spec[0] in ("e2o", "multi") and tape.chance("config", 1, 2, "failfast")
    if failfast:
        top.failfast = True
    how = tape.choice("program", ("explicit-stop", "failfast-outcome") if failfast else ("explicit-stop",), "how-stopped")
    label = _shape(spec)
    try:
        top.startTestRun()
        if top.shouldStop:
            out.violate("failfast-early", f"oldstyle:fresh-run-starts-stopped:{label}", f"stack {spec}")
        testtools.PlaceHolder("o1", outcome="addSuccess").run(top)
        if top.shouldStop:
            out.violate("failfast-early", f"oldstyle:stopped-after-success:{label}", f"stack {spec}")
        if how == "explicit-stop":
            top.stop()
        else:
            testtools.PlaceHolder("o2", outcome=tape.choice("program", ("addFailure", "addError"), "bad-outcome")).run(top)
        if not top.shouldStop:
            out.violate("failfast-late" if how != "explicit-stop" else "stop-not-propagated", f"oldstyle:{how}:{label}",
                        f"after {how} shouldStop reads False; stack {spec}")
        top.stopTestRun()
        top.startTestRun()
        if top.shouldStop:
            out.violate("failfast-early", f"oldstyle:second-run-starts-stopped:{label}",
                        f"a stop from the previous run ({how}) is still in force after startTestRun; stack {spec}")
        top.stopTestRun()
    except Exception as e:   # noqa
        import traceback
        out.violate("adapter-raised", "oldstyle:" + type(e).__name__, f"stack {spec}: {traceback.format_exc()[-600:]}")
    return ("oldstyle", spec, (1 if how != "explicit-stop" else 0, True))


def run_one(tape, opts):
    out = Outcome()
    sc = tape.weighted("config", [(8, "history"), (8, "suite"), (2, "run"), (1, "oldstyle")], "scenario")
    _CHILDREN.clear()
    clock = vclock.VClock()
    vclock.install(clock)
    warnings.filterwarnings("ignore", message="TestResult has no addDuration method")
    try:
        name, spec, info = {"history": scenario_history, "suite": scenario_suite, "run": scenario_run, "oldstyle": scenario_oldstyle}[sc](tape, out)
    finally:
        vclock.uninstall()
    out.probe("scenario:" + sc)
    if info:
        if info[0]:
            out.probe("bad-outcome-present")
        if sc == "suite":
            out.probe("failfast:" + info[1])
            if info[2]:
                out.probe("stop-from-test-with-tests-left")
    out.nontrivial = bool(info and (info[0] or (len(info) > 2 and info[2]) or (sc == "history" and info[1])))
    out.steps = len(tape.record.get("program", []))
    out.sim_time = float(out.steps)
    out.hhash = digest_of(sc, spec, tape.record.get("program", []))
    out.ihash = None
    if opts.get("want_sample"):
        out.sample = {"scenario": sc, "stack": spec, "info": info, "program_tape": tape.record.get("program", [])[:80]}
    return out
