"""C08 -- ExtendedToOriginalDecorator, MultiTestResult, TestResultDecorator, Tagger and
TestByTestResult deliver every startTest / outcome / stopTest to each wrapped result exactly
once and in order, at the richest protocol the target has, with the documented fixed
degradation; through ExtendedToOriginalDecorator a failing outcome never becomes a passing
one; TestByTestResult makes exactly one callback per test, at stopTest."""

from simkit.driver import Outcome
from simkit.targets import World, OUTCOMES
from simkit.tape import digest_of
from simkit import vclock, pipeline as pl
from simkit.lifecycle import LoggingTestResult

ID = "C08"
RUNS = {"quick": 320_000, "thorough": 3_000_000}
SIM_TIME_UNIT = "reporter calls"
RULE = (
    "each run = a scripted reporter issuing a well-formed history of TestResult calls (startTestRun, tags, time, "
    "startTest, one of six outcomes given as exc_info / details / reason, stopTest, stopTestRun, stop, done, progress; "
    "0..5 tests that are TestCase, PlaceHolder or ErrorHolder objects; optionally a second run) into a stack of 1..3 "
    "adapters (ExtendedToOriginalDecorator, MultiTestResult with fan-out 1..3, TestResultDecorator, Tagger) over "
    "recording targets of every flavour (2.6, 2.7, extended, Twisted-style, the real testtools.TestResult) and "
    "TestByTestResult terminals; virtual clock for times not supplied; the degradation table is data in the model; "
    "distinct = digest of (stack shape, per-test outcome/mode/test-kind sequence); non-trivial = >=1 test reported "
    "through >=2 adapter layers or to >=2 terminals"
)
REAL_STUB = {
    "real": ["ExtendedToOriginalDecorator", "MultiTestResult", "TestResultDecorator", "Tagger", "TestByTestResult",
             "testtools.TestResult (as a terminal)", "PlaceHolder/ErrorHolder/TestCase objects being reported"],
    "stub": ["reporter (scripted history)", "terminal targets 2.6/2.7/extended/twisted (simkit.targets)", "wall clock (virtual)"],
}
ASSUMPTIONS = [
    "TestResultDecorator and Tagger are only stacked over results that accept details= (they pass it on unconditionally by design)",
    "progress()/done() are only issued when the outermost adapter is one that guards missing methods",
    "forwarding of tags/time/startTestRun/stopTestRun calls is not compared call for call here (C17 checks tag observability)",
]

DEGRADE = {
    "2.6": {"addSkip": "addSuccess", "addExpectedFailure": "addSuccess", "addUnexpectedSuccess": "addFailure"},
}
STATUS_WORD = {"addSuccess": "success", "addFailure": "failure", "addError": "error", "addSkip": "skip",
               "addExpectedFailure": "xfail", "addUnexpectedSuccess": "success"}


def run_one(tape, opts):
    out = Outcome()
    spec = pl.gen_stack(tape)
    top = spec[0]
    # (skip_pair: the startTest-less addSkip + stopTest that unittest in Python 3.12.1 sends for a skipped stdlib test)
    hist = pl.gen_history(tape, extras=True, skip_pair=True, max_tests=9 if opts.get("tier") == "thorough" else 5)
    # keep calls the outermost adapter cannot take by construction out of the history
    # (progress() is forwarded unconditionally by TestResultDecorator and absent from MultiTestResult/TestResult:
    # whether a given stack supports it is a property of the stack, not of the adapters' delivery guarantee)
    hist = [c for c in hist if c[0] != "progress" and not (c[0] == "done" and top not in ("e2o", "multi"))]
    clock = vclock.VClock()
    vclock.install(clock)
    world = World()
    built = pl.Built()
    result = pl.build_stack(spec, world, built, make_testtools=lambda w, n: LoggingTestResult(w, n))
    rep = pl.Reporter(result, hist, reuse_details_dict=tape.chance("config", 1, 3, "reporter-reuses-details-dict"))
    # a second pipeline of the same shape, alive at the same time, fed between the main one's calls
    decoy = pl.Decoy.for_spec(spec, lambda w, n: LoggingTestResult(w, n)) if tape.chance("config", 1, 3, "decoy-pipeline") else None
    windows = {}
    override = None
    tests = []
    raised = None
    # per-terminal tag models (reporter calls + tagger injections)
    models = {t["name"]: pl.TagModel() for t in built.terminals + built.bytest}
    expect_bt = {t["name"]: [] for t in built.bytest}
    try:
        while True:
            lo = clock.peek()
            clock.tick()
            try:
                c = rep.step()
            except Exception as e:   # noqa
                import traceback
                tb = traceback.extract_tb(e.__traceback__)
                where = next((f.name for f in reversed(tb) if "testresult/real.py" in f.filename), "?")
                c = hist[rep.i - 1]
                out.violate("adapter-raised", f"{type(e).__name__}-in-{where}",
                            f"call {c} raised {e!r}; stack {spec}\n{traceback.format_exc()[-600:]}")
                raised = e
                break
            if c is None:
                break
            if decoy is not None:
                decoy.step()
            hi = clock.peek()
            op = c[0]
            if op == "stop":
                # asking the outermost adapter whether to stop must work whatever the results behind it lack
                try:
                    if not result.shouldStop:
                        out.violate("stop-lost", top, f"stop() on the outermost {top}, then shouldStop reads False; stack {spec}")
                except Exception as e:   # noqa
                    out.violate("adapter-raised", f"{type(e).__name__}-reading-shouldStop", f"after stop(): {e!r}; stack {spec}")
            if op == "time":
                override = c[1]
            elif op == "startTestRun":
                override = None
            for t in built.terminals + built.bytest:
                m = models[t["name"]]
                m.apply(c)
                if op == "startTest":
                    for new, gone in reversed(t["taggers"]):
                        m.apply(["tags", new, gone])
            if op == "startTest":
                tests.append({"tid": c[1], "kind": c[2], "start": ("explicit", override) if override is not None else ("clock", lo, hi)})
            elif op == "outcome":
                if not tests or tests[-1].get("complete"):
                    # reported without startTest
                    tests.append({"tid": c[1], "kind": c[2], "start": None, "startless": True})
                tests[-1].update(method=c[3], mode=c[4], payload=c[5])
                if c[4] == "details" and rep.last_details is not None and sorted(rep.last_details) != sorted(c[5]["details"]):
                    out.violate("caller-arg-mutated", "details-dict", f"the details dict passed with {c[3]} had keys {sorted(c[5]['details'])}, afterwards {sorted(rep.last_details)}; stack {spec}")
            elif op == "stopTest":
                tests[-1]["stop"] = ("explicit", override) if override is not None else ("clock", lo, hi)
                tests[-1]["complete"] = True
                for t in built.bytest:
                    expect_bt[t["name"]].append(dict(tests[-1], tags=frozenset(models[t["name"]].current | set())))
                    # tags current at stopTest: the local context is still open when the callback data is taken
            # (TagModel.apply(stopTest) already closed it: recompute below)
    finally:
        vclock.uninstall()
    if raised is None:
        _check_terminals(out, built, world, tests, spec, hist)
        _check_bytest(out, built, hist, spec)
    if decoy is not None:
        vclock.install(clock)
        try:
            decoy.finish(out, spec)
        finally:
            vclock.uninstall()
        out.probe("decoy-pipeline" if decoy.reference is not None else "decoy-pipeline-not-applicable")
    # accounting
    nterm = len(built.terminals) + len(built.bytest)
    depth = max([len(t["path"]) for t in built.terminals + built.bytest] or [0])
    out.nontrivial = bool(tests) and (depth >= 2 or nterm >= 2)
    for t in built.terminals:
        out.probe("terminal:" + t["flavour"])
    if built.bytest:
        out.probe("terminal:bytest")
    for k, o, p in built.nodes:
        if k in ("e2o", "multi", "trd", "tagger"):
            out.probe("adapter:" + k)
    for t in tests:
        if t.get("kind") != "testcase":
            out.probe("reported:" + t["kind"])
    out.steps = len(hist)
    out.sim_time = float(len(hist))
    out.hhash = digest_of(spec, [(t.get("method"), t.get("mode"), t["kind"]) for t in tests])
    out.ihash = None
    if opts.get("want_sample"):
        out.sample = {"stack": spec, "history": _js(hist),
                      "terminal_calls": {t["name"]: [(e.method, e.test_id) for e in world.events if e.target == t["name"]][:40] for t in built.terminals}}
    return out


def _js(x):
    if isinstance(x, bytes):
        return x.decode("latin-1")
    if isinstance(x, dict):
        return {k: _js(v) for k, v in x.items()}
    if isinstance(x, (list, tuple)):
        return [_js(v) for v in x]
    return x


def _texts(payload):
    return [b"".join(ch).decode("utf8") for shape, ch in (payload.get("details") or {}).values() if shape == "text" and b"".join(ch)]


def _check_terminals(out, built, world, tests, spec, hist=()):
    done_tests = [t for t in tests if t.get("complete") and "method" in t]
    for term in built.terminals:
        fl = term["flavour"]
        if fl in ("2.7", "extended", "testtools"):
            # run boundaries: nothing dropped or duplicated either
            for meth in ("startTestRun", "stopTestRun"):
                sent = sum(1 for c in hist if c[0] == meth)
                got_n = sum(1 for e in world.events if e.target == term["name"] and e.method == meth)
                if got_n != sent:
                    out.violate("call-duplicated" if got_n > sent else "call-lost", f"{fl}:{meth}",
                                f"terminal {term['name']} behind {term['path']}: {meth} sent {sent} times, received {got_n}; stack {spec}")
        got = [e for e in world.events if e.target == term["name"] and e.method in ("startTest", "stopTest") + OUTCOMES]
        want = []
        for t in tests:
            if not t.get("startless"):
                want.append(("startTest", t["tid"]))
            if "method" in t:
                want.append((DEGRADE.get(fl, {}).get(t["method"], t["method"]), t["tid"]))
            if t.get("complete"):
                want.append(("stopTest", t["tid"]))
        gseq = [(e.method, e.test_id) for e in got]
        if gseq != want:
            if len(gseq) < len(want):
                kind = "call-lost"
            elif len(gseq) > len(want):
                kind = "call-duplicated"
            else:
                # same length: wrong method (degradation) or order
                bad = next((g, w) for g, w in zip(gseq, want) if g != w)
                if bad[0][1] == bad[1][1] and bad[0][0] in OUTCOMES and bad[1][0] in OUTCOMES:
                    kind = "fail-became-pass" if bad[1][0] in pl.BAD and bad[0][0] not in pl.BAD else "degradation-wrong"
                else:
                    kind = "call-reordered"
            out.violate(kind, fl, f"terminal {term['name']} behind {term['path']}: got {gseq}\nexpected {want}\nstack {spec}")
            continue
        # payload: detail text must survive the conversion
        outs = [e for e in got if e.method in OUTCOMES]
        for e, t in zip(outs, [t for t in tests if "method" in t]):
            data = e.data or {}
            texts = _texts(t["payload"])
            if t["mode"] == "details":
                if data.get("details") is not None:
                    for name, (shape, chunks) in t["payload"]["details"].items():
                        d = data["details"].get(name)
                        if d is None or d["bytes"] != b"".join(chunks):
                            out.violate("detail-changed", fl, f"{term['name']}: detail {name!r} arrived as {d}, sent {b''.join(chunks)!r}")
                            break
                elif data.get("err") is not None and (pl.KIND[e.method] == pl.KIND[t["method"]] or t["method"] == "addUnexpectedSuccess"):
                    # (also for an unexpected success degraded to a failure: "details become a synthetic
                    # exception ... whose text contains the detail text", "nothing is dropped")
                    for tx in texts:
                        if tx not in data["err"]["text"]:
                            out.violate("degradation-wrong", fl + ":detail-text-missing-from-exception", f"{term['name']}: {tx!r} not in {data['err']['text']!r}")
                            break
                elif "reason" in data and e.method == "addSkip":
                    r = data["reason"] or ""
                    if "reason" in t["payload"]["details"]:
                        # a 'reason' detail is the reason; the other details have nowhere to go
                        texts = [b"".join(t["payload"]["details"]["reason"][1]).decode("utf8")]
                    for tx in texts:
                        if tx not in r:
                            out.violate("degradation-wrong", fl + ":detail-text-missing-from-reason", f"{term['name']}: {tx!r} not in reason {r!r}")
                            break
            elif t["mode"] == "exc_info" and e.method in ("addError", "addFailure", "addExpectedFailure"):
                marker = t["payload"]["exc"]
                txt = (data.get("err") or {}).get("text", "")
                det = data.get("details") or {}
                if marker not in txt and not any(marker.encode() in d["bytes"] for d in det.values()):
                    out.violate("degradation-wrong", fl + ":exc-info-lost", f"{term['name']}: {marker} not delivered: {data}")
            elif t["mode"] == "reason" and e.method == "addSkip":
                r = data.get("reason")
                det = data.get("details") or {}
                if r != t["payload"]["reason"] and not any(t["payload"]["reason"].encode() in d["bytes"] for d in det.values()):
                    out.violate("degradation-wrong", fl + ":skip-reason-lost", f"{term['name']}: {data}")


def _check_bytest(out, built, hist, spec):
    """Exactly one callback per test, at stopTest, with that test's times, tags, details, status."""
    for bt in built.bytest:
        log = bt["log"]
        # replay the history for this terminal: expected callbacks
        m = pl.TagModel()
        override = None
        want = []
        cur = None
        for c in hist:
            op = c[0]
            if op == "time":
                override = c[1]
            elif op == "startTestRun":
                override = None
            if op == "stopTest" and cur is not None:
                cur["tags"] = frozenset(m.current)
                cur["stop"] = override
                want.append(cur)
                cur = None
            m.apply(c)
            if op == "startTest":
                for new, gone in reversed(bt["taggers"]):
                    m.apply(["tags", new, gone])
                cur = {"tid": c[1], "start": override}
            elif op == "outcome":
                if cur is None:
                    cur = {"tid": c[1], "start": "startless"}
                cur.update(method=c[3], mode=c[4], payload=c[5])
        if len(log) != len(want):
            out.violate("bytest-callback", "count-" + ("lost" if len(log) < len(want) else "duplicated"),
                        f"{bt['name']} behind {bt['path']}: {len(log)} callbacks for {len(want)} tests; stack {spec}")
            continue
        for got, w in zip(log, want):
            if got["test"].id() != w["tid"]:
                out.violate("bytest-callback", "order", f"{bt['name']}: callback for {got['test'].id()} expected {w['tid']}")
                break
            if "method" not in w:
                continue
            if got["status"] != STATUS_WORD[w["method"]]:
                out.violate("bytest-callback", "status", f"{bt['name']}: {w['tid']} {w['method']} reported as {got['status']!r}")
            if frozenset(got["tags"]) != w["tags"]:
                out.violate("bytest-callback", "tags", f"{bt['name']}: {w['tid']} tags {sorted(got['tags'])} expected {sorted(w['tags'])}; stack {spec}")
            for which in ("start", "stop"):
                gt = got[which + "_time"]
                if w[which] == "startless":
                    continue      # a test reported without startTest has no start time of its own
                if w[which] is not None:
                    if gt != vclock.explicit_time(w[which]):
                        out.violate("bytest-callback", which + "-time", f"{bt['name']}: {w['tid']} {which}_time {gt} expected explicit {w[which]}")
                elif gt is None or vclock.us_of(gt) is None or vclock.us_of(gt) <= 0:
                    out.violate("bytest-callback", which + "-time", f"{bt['name']}: {w['tid']} {which}_time {gt!r} is not a clock reading")
            if w["start"] == "startless" and got["start_time"] is not None and got["stop_time"] is not None and got["start_time"] > got["stop_time"]:
                out.violate("bytest-callback", "start-after-stop", f"{bt['name']}: startTest-less {w['tid']}: {got['start_time']} > {got['stop_time']} (an earlier test's start time?)")
            if w["start"] is None and w["stop"] is None and got["start_time"] and got["stop_time"] and got["start_time"] > got["stop_time"]:
                out.violate("bytest-callback", "start-after-stop", f"{bt['name']}: {got['start_time']} > {got['stop_time']}")
            det = got["details"]
            snap = got["snap"]
            if w["mode"] == "details":
                sent = w["payload"]["details"]
                have = {} if snap is None else {n: d["bytes"] for n, d in snap.items()}
                for name, (shape, chunks) in sent.items():
                    if have.get(name) != b"".join(chunks):
                        out.violate("bytest-callback", "details", f"{bt['name']}: {w['tid']} detail {name!r}: {have.get(name)!r} sent {b''.join(chunks)!r}")
                        break
            elif w["mode"] == "exc_info" and w["method"] in ("addError", "addFailure", "addExpectedFailure"):
                blob = b"" if snap is None else b"".join(d["bytes"] for d in snap.values())
                if w["payload"]["exc"].encode() not in blob:
                    out.violate("bytest-callback", "details", f"{bt['name']}: {w['tid']} traceback text missing")
            elif w["mode"] == "reason":
                blob = b"" if snap is None else b"".join(d["bytes"] for d in snap.values())
                if w["payload"]["reason"].encode() not in blob:
                    out.violate("bytest-callback", "details", f"{bt['name']}: {w['tid']} skip reason missing from details")
