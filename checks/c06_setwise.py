"""C06 (iteration-order facet only) -- MatchesSetwise's verdict is deterministic and equals
"a one-to-one assignment of values to matchers exists", whatever order its set of matchers
happens to iterate in; matching modifies neither the matchers nor the matched values."""

import copy

from testtools.matchers import MatchesSetwise, Equals, LessThan, Contains, Always, Never, GreaterThan

from simkit.driver import Outcome
from simkit.tape import digest_of

ID = "C06"
RUNS = {"quick": 700_000, "thorough": 10_000_000}
SIM_TIME_UNIT = "match() calls"
RULE = (
    "each run = 1..5 leaf matchers with overlapping acceptance sets (Equals/LessThan/GreaterThan/Always/Never "
    "over small ints) wrapped so that __hash__ is assigned from the tape's schedule stream (this makes the "
    "iteration order of the set MatchesSetwise builds a simulator decision), an observed sequence of 0..5 "
    "values, and 3 different hash assignments for the same expression and value; distinct = digest of "
    "(matcher kinds+arguments, observed values); non-trivial = some value is accepted by >=2 matchers and the "
    "sizes are equal (so the greedy order can matter)"
)
REAL_STUB = {
    "real": ["testtools.matchers.MatchesSetwise.match (and the leaf matchers it calls)"],
    "stub": ["hash values of the matcher objects (simulator-assigned instead of address-derived)"],
}
ASSUMPTIONS = [
    "NARROW SCOPE: only the nondeterminism facet of C06 (hash/iteration order of MatchesSetwise) is decided here; match() of the stock matchers and the truth-functional laws of the other combinators are pure functions of (expression, value): not a simulation target (DESIGN section 4)",
]

KINDS = ("eq", "lt", "gt", "always", "never")


class Hashed:
    """A matcher whose hash is chosen by the simulator."""

    def __init__(self, inner, h, label):
        self.inner = inner
        self.h = h
        self.label = label
        self.calls = 0

    def match(self, value):
        self.calls += 1
        return self.inner.match(value)

    def __hash__(self):
        return self.h

    def __eq__(self, other):
        return self is other

    def __str__(self):
        return self.label


def _mk(kind, arg):
    if kind == "eq":
        return Equals(arg), lambda v: v == arg
    if kind == "lt":
        return LessThan(arg), lambda v: v < arg
    if kind == "gt":
        return GreaterThan(arg), lambda v: v > arg
    if kind == "always":
        return Always(), lambda v: True
    return Never(), lambda v: False


def _assignment_exists(accept, n_values, n_matchers):
    if n_values != n_matchers:
        return False
    owner = {}

    def place(v, seen):
        for i in range(n_matchers):
            if accept[v][i] and i not in seen:
                seen.add(i)
                if i not in owner or place(owner[i], seen):
                    owner[i] = v
                    return True
        return False

    return all(place(v, set()) for v in range(n_values))


def run_one(tape, opts):
    out = Outcome()
    nm = 1 + tape.draw("program", 5, "n-matchers")
    specs = [(tape.choice("program", KINDS, "kind"), tape.draw("program", 4, "arg")) for _ in range(nm)]
    nv = tape.weighted("program", [(5, nm), (1, max(0, nm - 1)), (1, nm + 1)], "n-values")
    observed = [tape.draw("program", 4, "value") for _ in range(nv)]
    preds = [_mk(k, a)[1] for k, a in specs]
    accept = [[preds[i](v) for i in range(nm)] for v in observed]
    want = _assignment_exists(accept, nv, nm)
    verdicts = []
    orders = []
    for trial in range(3):
        hashes = [tape.draw("schedule", 64, "hash") for _ in range(nm)]
        matchers = [Hashed(_mk(k, a)[0], hashes[i], f"{k}({a})#{i}") for i, (k, a) in enumerate(specs)]
        obs = list(observed)
        snapshot = copy.deepcopy(obs)
        try:
            ms = MatchesSetwise(*matchers)
            before = list(ms.matchers)
            mm = ms.match(obs)
            # the same matcher object, used again: on the same value, and on a permutation of it
            again = ms.match(list(observed))
            rotated = observed[1:] + observed[:1]
            rot = ms.match(list(rotated))
        except Exception as e:
            out.violate("match-raised", type(e).__name__, f"specs {specs} observed {observed}: {e!r}")
            continue
        verdicts.append(mm is None)
        orders.append(hashes)
        if obs != snapshot:
            out.violate("mutated", "observed", f"{snapshot} -> {obs}")
        after = list(ms.matchers)
        if len(after) != len(before) or any(a is not b for a, b in zip(after, before)):
            out.violate("mutated", "matcher", f"MatchesSetwise.matchers changed from {[str(x) for x in before]} to {[str(x) for x in after]} by matching {observed}")
        if (again is None) != (mm is None):
            out.violate("verdict-order-dependent", "repeated-match", f"matchers {specs} observed {observed}: first match {mm is None}, second {again is None}")
        if (rot is None) != want:
            out.violate("verdict-not-assignment", "permuted-observed:" + ("false-mismatch" if want else "false-match"),
                        f"matchers {specs} observed {rotated} (after matching {observed} with the same matcher): matched={rot is None}, assignment exists={want}")
        if mm is not None:
            try:
                if not isinstance(mm.describe(), str):
                    out.violate("mismatch-protocol", "describe", "not text")
            except Exception as e:
                out.violate("mismatch-protocol", type(e).__name__, repr(e))
    if len(set(verdicts)) > 1:
        out.violate("verdict-order-dependent", "hash-order",
                    f"matchers {specs} observed {observed}: verdicts {verdicts} under hash assignments {orders}")
    for v, h in zip(verdicts, orders):
        if v != want:
            out.violate("verdict-not-assignment", "false-mismatch" if want else "false-match",
                        f"matchers {specs} observed {observed} hashes {h}: matched={v}, a one-to-one assignment {'exists' if want else 'does not exist'}")
            break
    overlap = nv == nm and any(sum(row) >= 2 for row in accept)
    out.nontrivial = overlap
    if overlap:
        out.probe("overlapping-acceptance")
    if want:
        out.probe("assignment-exists")
    out.plan("hash-order")
    out.fire("hash-order", 3)
    out.steps = 3
    out.sim_time = 3.0
    out.hhash = digest_of(specs, observed)
    out.ihash = digest_of(orders)
    if opts.get("want_sample"):
        out.sample = {"matchers": specs, "observed": observed, "assignment_exists": want, "verdicts": verdicts, "hash_assignments": orders}
    return out
