"""C16 (stream / chunking / snapshot facets) -- a Content's bytes are exactly what its source
yields, independent of chunking; content_from_file/stream yield precisely the bytes from the
requested offset to EOF in non-empty chunks <= chunk_size, lazily unless buffer_now; copies
made when details are gathered are snapshots."""

import json

from testtools import content as _c
from testtools.content import Content, content_from_file, content_from_stream, text_content, json_content
from testtools.content_type import ContentType
from testtools.testcase import gather_details

from simkit.driver import Outcome
from simkit.simio import SimStream, SimFS
from simkit.tape import digest_of

ID = "C16"
RUNS = {"quick": 2_000_000, "thorough": 20_000_000}
SIM_TIME_UNIT = "read()/seek() calls on the simulated stream"
RULE = (
    "each run = one of: (a) content_from_stream / content_from_file over a simulated stream whose read(n) "
    "returns a drawn short prefix, with drawn chunk_size 1..9, seek offset before/at/after EOF for both "
    "origins, buffer_now on/off, and a mutation of the backing bytes at a drawn instant (after creation, "
    "after gather_details); (b) a text in utf-8/utf-16/latin-1/undeclared charset cut into 0..7 chunks at "
    "drawn byte positions (inside multi-byte sequences, empty chunks) served as iter_bytes; (c) two Contents "
    "with drawn chunkings/types compared with ==; distinct = digest of (scenario, sizes relative to chunk_size, "
    "seek relation to EOF, cut pattern class); non-trivial = a short read, a cut inside a multi-byte sequence, "
    "a seek, or a mutation happened"
)
REAL_STUB = {
    "real": ["testtools.content._iter_chunks/content_from_file/content_from_stream/content_from_reader",
             "Content.iter_bytes/iter_text/as_text/__eq__", "text_content/json_content", "testtools.testcase.gather_details/_copy_content"],
    "stub": ["stream and file (SimStream/SimFS via the module global testtools.content.open)"],
}
ASSUMPTIONS = [
    "NARROW SCOPE: text_content/json_content construction and the ContentType <-> MIME string inverse are pure functions of their input (not a simulation target); they are exercised as workload only",
    "texts are valid in their declared charset; seek offsets keep the position >= 0",
]

ALPHABET = ["a", "z", "0", " ", "\n", "\x00", "é", "ß", "☃", "€", "́", "𝄞", "😀", "￿"]


def _text(tape):
    n = tape.draw("payload", 9, "text-len")
    return "".join(ALPHABET[tape.draw("payload", len(ALPHABET), "char")] for _ in range(n))


def _bytes(tape):
    n = tape.draw("payload", 24, "bytes-len")
    return bytes(tape.draw("payload", 256, "byte") if tape.chance("payload", 1, 3) else 65 + (i % 26) for i in range(n))


def _cut(tape, data):
    """Cut data into 0..7 chunks at drawn positions, with drawn empty chunks."""
    ncuts = tape.draw("schedule", 5, "n-cuts")
    cuts = sorted(tape.draw("schedule", len(data) + 1, "cut") for _ in range(ncuts))
    chunks, prev = [], 0
    for c in cuts + [len(data)]:
        chunks.append(data[prev:c])
        prev = c
    out = []
    for ch in chunks:
        if tape.chance("schedule", 1, 5, "empty-chunk"):
            out.append(b"")
        out.append(ch)
    if not data and tape.chance("schedule", 1, 2, "no-chunks"):
        out = []
    return out


def scenario_stream(tape, out):
    log = []
    data = _bytes(tape)
    from_file = tape.chance("config", 1, 3, "from-file")
    chunk_size = 1 + tape.draw("config", 9, "chunk-size")
    buffer_now = tape.chance("config", 1, 2, "buffer-now")
    seek = None
    if tape.chance("config", 1, 2, "seek"):
        whence = tape.choice("config", (0, 2), "whence")
        if whence == 0:
            off = tape.draw("config", len(data) + 4, "offset")
            start = off
        else:
            off = -tape.draw("config", len(data) + 1, "neg-offset") + (tape.draw("config", 4, "past") if tape.chance("config", 1, 4) else 0)
            start = len(data) + off
        seek = (off, whence)
    kw = {"chunk_size": chunk_size, "buffer_now": buffer_now}
    if seek:
        kw["seek_offset"], kw["seek_whence"] = seek
    pos0 = 0
    fs = SimFS(tape, log)
    if from_file:
        fs.files["/sim/file"] = bytes(data)
        saved = _c.__dict__.get("open")
        _c.open = fs.open
        try:
            content = content_from_file("/sim/file", **kw)
        finally:
            pass
        stream = None
    else:
        if not seek and tape.chance("config", 1, 4, "start-pos"):
            pos0 = tape.draw("config", len(data) + 1, "pos0")
        stream = SimStream(data, tape, log, pos=pos0)
        content = content_from_stream(stream, **kw)
    try:
        expect = bytes(data[start:]) if seek else bytes(data[pos0:])
        reads_at_creation = sum(1 for e in log if e[0] in ("read", "open"))
        if not buffer_now and reads_at_creation:
            out.violate("not-lazy", "file" if from_file else "stream", f"{reads_at_creation} reads/opens before iter_bytes: {log}")
        # mutate the source after creation
        mutated = tape.chance("faults", 1, 3, "mutate-after-create")
        new_data = None
        if mutated:
            new_data = bytes(reversed(data)) + b"MUT"
            if from_file:
                fs.files["/sim/file"] = new_data
            else:
                stream.data = bytearray(new_data)
            out.fire("source-mutated-after-create")
            if not buffer_now:
                # lazy: the read happens now, from the mutated source
                if seek:
                    st = seek[0] if seek[1] == 0 else len(new_data) + seek[0]
                    expect = new_data[st:] if st >= 0 else None
                else:
                    expect = new_data[pos0:]
        n_before = len(log)
        try:
            chunks = list(content.iter_bytes())
        except OSError:
            chunks = None
        if expect is None:
            return "stream", (from_file, chunk_size, buffer_now, seek, mutated)
        if chunks is None:
            out.violate("bytes-mismatch", "raised", f"iter_bytes raised; data {data!r} kw {kw}")
            return "stream", ()
        got = b"".join(chunks)
        if got != expect:
            out.violate("bytes-mismatch" if not (buffer_now and mutated and got == (new_data[start:] if seek else new_data[pos0:])) else "not-buffered",
                        ("file" if from_file else "stream") + (":seek" if seek else ""),
                        f"data {data!r} kw {kw} pos0 {pos0} mutated {mutated}: got {got!r} expected {expect!r}; log {log}")
        if any(len(ch) == 0 for ch in chunks):
            out.violate("empty-chunk", "file" if from_file else "stream", f"chunks {chunks}")
        if any(len(ch) > chunk_size for ch in chunks):
            out.violate("chunk-size", "file" if from_file else "stream", f"chunk_size {chunk_size} chunks {[len(c) for c in chunks]}")
        if buffer_now and len(log) != n_before:
            out.violate("not-buffered", "reads-after-creation", f"{log[n_before:]}")
        if any(e[0] == "short-read" for e in log):
            out.probe("short-read")
        if seek:
            out.probe("seek:" + ("before-eof" if start < len(data) else "at-eof" if start == len(data) else "after-eof"))
        if from_file and not any(e[0] == "close" for e in log) and any(e[0] == "open" for e in log):
            out.probe("file-left-open")
    finally:
        if from_file:
            if saved is None:
                del _c.open
            else:
                _c.open = saved
    return "stream", (from_file, chunk_size > len(data), buffer_now, seek and (seek[1], start < len(data)), mutated)


def scenario_text(tape, out):
    text = _text(tape)
    charset = tape.choice("config", ("utf8", "utf-16", "latin-1", None, "utf-8"), "charset")
    if charset in ("latin-1", None):
        text = "".join(ch if ord(ch) < 256 else "ÿ" for ch in text)
    enc = charset or "ISO-8859-1"
    data = text.encode(enc)
    chunks = _cut(tape, data)
    params = {"charset": charset} if charset else {}
    ct = ContentType("text", "plain", params)
    content = Content(ct, lambda: list(chunks))
    got = content.as_text()
    if got != text:
        out.violate("text-mismatch", f"{charset}", f"text {text!r} bytes {data!r} chunks {chunks}: as_text {got!r}")
    if "".join(content.iter_text()) != text:
        out.violate("text-mismatch", f"iter_text:{charset}", f"chunks {chunks}")
    if b"".join(content.iter_bytes()) != data:
        out.violate("bytes-mismatch", "fragmented", f"chunks {chunks}")
    # cut inside a multi-byte sequence?
    pos, inside = 0, False
    boundaries = set()
    acc = 0
    for ch in text:
        acc += len(ch.encode(enc if enc != "utf-16" else "utf-16-le"))
        boundaries.add(acc + (2 if enc == "utf-16" else 0))
    for c in chunks[:-1]:
        pos += len(c)
        if 0 < pos < len(data) and pos not in boundaries:
            inside = True
    if inside:
        out.probe("cut-inside-multibyte")
    # a reader that gives up half way must not leave anything behind on the Content
    if len(chunks) > 1:
        it = content.iter_text()
        try:
            for _ in range(1 + tape.draw("schedule", len(chunks), "abandon-after")):
                next(it)
        except StopIteration:
            pass
        if tape.chance("schedule", 1, 2, "close-abandoned-iterator"):
            it.close()
        del it
        try:
            again = content.as_text()
        except UnicodeDecodeError as e:
            again = e
        if again != text:
            out.violate("text-mismatch", f"after-abandoned-iteration:{charset}", f"text {text!r} chunks {chunks}: as_text() after an abandoned iter_text() gave {again!r}")
        out.probe("abandoned-iteration")
    # two text contents decoded in an interleaved fashion (two readers, one per content): the
    # scheduler decides whose next chunk is pulled; neither may disturb the other
    text2 = _text(tape)
    if charset in ("latin-1", None):
        text2 = "".join(ch if ord(ch) < 256 else "ÿ" for ch in text2)
    data2 = text2.encode(enc)
    chunks2 = _cut(tape, data2)
    other = Content(ContentType("text", "plain", dict(params)), lambda: list(chunks2))
    its = [content.iter_text(), other.iter_text()]
    got2 = ["", ""]
    alive = [0, 1]
    steps = 0
    try:
        while alive:
            i = alive[tape.draw("schedule", len(alive), "next-reader")] if len(alive) > 1 else alive[0]
            steps += 1
            try:
                got2[i] += next(its[i])
            except StopIteration:
                alive.remove(i)
    except UnicodeDecodeError as e:
        out.violate("text-mismatch", f"interleaved-readers:{charset}:raised", f"texts {text!r} / {text2!r} chunks {chunks} / {chunks2}: {e!r}")
    else:
        if got2 != [text, text2]:
            out.violate("text-mismatch", f"interleaved-readers:{charset}", f"texts {text!r} / {text2!r} chunks {chunks} / {chunks2}: got {got2}")
    if len(chunks) > 1 and len(chunks2) > 1:
        out.probe("interleaved-text-readers")
    # text_content / json_content as workload
    tc = text_content(text)
    if tc.as_text() != text:
        out.violate("text-mismatch", "text_content", f"{text!r}")
    obj = {"k": [text, len(text), None, True]}
    jc = json_content(obj)
    if json.loads(jc.as_text() if jc.content_type.type == "text" else b"".join(jc.iter_bytes()).decode("utf8")) != obj:
        out.violate("text-mismatch", "json_content", f"{obj!r}")
    return "text", (charset, len(chunks), inside, any(c == b"" for c in chunks))


def scenario_eq(tape, out):
    a = _bytes(tape)
    if tape.chance("program", 1, 8, "block-sized"):
        # lengths at and around multiples of the default chunk size
        a = bytes(65 + (i % 23) for i in range(_c.DEFAULT_CHUNK_SIZE * (1 + tape.draw("program", 2, "blocks")) + tape.choice("program", (0, 0, -1, 1), "off-by")))
        out.probe("block-sized-content")
    same_bytes = tape.chance("program", 1, 2, "same-bytes")
    b = a if same_bytes else (a + b"x" if tape.chance("program", 1, 2) else a[:-1] if a else b"y")
    types = [ContentType("text", "plain", {"charset": "utf8"}), ContentType("text", "plain"),
             ContentType("application", "octet-stream"), ContentType("text", "plain", {"charset": "utf8"})]
    ta = types[tape.draw("program", len(types), "type-a")]
    same_type = tape.chance("program", 1, 2, "same-type")
    tb = ContentType(ta.type, ta.subtype, dict(ta.parameters)) if same_type else types[(types.index(ta) + 1) % 3]
    ca = Content(ta, lambda c=_cut(tape, a): list(c))
    cb = Content(tb, lambda c=_cut(tape, b): list(c))
    want = (a == b) and (ta == tb)
    got = (ca == cb)
    if bool(got) != want:
        out.violate("eq-wrong", f"bytes-{'same' if a == b else 'differ'}:type-{'same' if ta == tb else 'differ'}",
                    f"a {a!r} b {b!r} ta {ta!r} tb {tb!r}: == gave {got}")
    return "eq", (a == b, ta == tb)


def scenario_snapshot(tape, out):
    """gather_details copies are snapshots unaffected by later changes to the source."""
    log = []
    nsrc = 1 + tape.draw("program", 3, "n-details")
    cells, src = {}, {}
    for i in range(nsrc):
        name = tape.choice("program", ("a", "b", "traceback", "a-1"), "name")
        data = _bytes(tape)
        kind = tape.draw("program", 5, "source-kind")
        if kind == 4:
            bufs = [bytearray(c) for c in _cut(tape, data)]
            src[name] = Content(ContentType("application", "octet-stream"), lambda c=bufs: list(c))   # fresh list, the source's own buffers
            cells[name] = ("livebuffers", bufs, data)
        elif kind == 3:
            live = list(_cut(tape, data))
            src[name] = Content(ContentType("application", "octet-stream"), lambda c=live: c)   # the same live list every time
            cells[name] = ("livelist", live, data)
        elif kind == 0:
            cell = [list(_cut(tape, data))]
            src[name] = Content(ContentType("application", "octet-stream"), lambda c=cell: list(c[0]))
            cells[name] = ("cell", cell, data)
        else:
            stream = SimStream(data, tape, log, name=name)
            src[name] = content_from_stream(stream, ContentType("application", "octet-stream"), chunk_size=1 + tape.draw("config", 6, "cs"),
                                            buffer_now=(kind == 2), seek_offset=0)
            cells[name] = ("stream", stream, data)
    target = {}
    pre = tape.chance("program", 1, 3, "name-collision")
    if pre:
        target["a"] = Content(ContentType("text", "plain"), lambda: [b"already-there"])
    gather_details(src, target)
    # later changes to every source
    for name, (kind, obj, data) in cells.items():
        if kind == "cell":
            obj[0] = [b"CHANGED"]
        elif kind == "livelist":
            del obj[:]
            obj.append(b"CHANGED")
        elif kind == "livebuffers":
            for b in obj:
                b[:] = b"CHANGED"
        else:
            obj.data = bytearray(b"CHANGED")
    out.fire("source-mutated-after-gather")
    if pre and target["a"].iter_bytes() != [b"already-there"]:
        out.violate("snapshot-changed", "existing-detail-overwritten", f"{list(target['a'].iter_bytes())}")
    delivered = [b"".join(c.iter_bytes()) for n, c in target.items() if not (pre and n == "a")]
    for name, (kind, obj, data) in cells.items():
        if data not in delivered:
            out.violate("snapshot-changed", kind, f"source {name!r} had {data!r} when gathered; target now holds {delivered}")
    if len(target) != len(src) + (1 if pre else 0):
        out.violate("snapshot-changed", "detail-count", f"{sorted(target)} from {sorted(src)}")
    return "snapshot", (nsrc, pre)


def run_one(tape, opts):
    out = Outcome()
    sc = tape.weighted("config", [(4, "stream"), (3, "text"), (1, "eq"), (2, "snapshot")], "scenario")
    try:
        name, shape = {"stream": scenario_stream, "text": scenario_text, "eq": scenario_eq, "snapshot": scenario_snapshot}[sc](tape, out)
    except Exception as e:   # inputs are inside the property's domain: nothing here may raise
        import traceback
        out.violate("unexpected-exception", f"{sc}:{type(e).__name__}", traceback.format_exc()[-1500:])
        name, shape = sc, ("raised",)
    rec = tape.record
    out.plan("short-read" if sc in ("stream", "snapshot") else "fragmentation")
    nshort = sum(1 for v in rec.get("faults", []) if v)
    if sc == "stream" and out.probes.get("short-read"):
        out.fire("short-read", out.probes["short-read"])
    out.steps = len(rec.get("faults", [])) + len(rec.get("schedule", []))
    out.sim_time = float(out.steps)
    out.hhash = digest_of(name, shape)
    out.ihash = digest_of(rec.get("faults", []), rec.get("schedule", []))
    out.nontrivial = bool(out.probes.get("short-read") or out.probes.get("cut-inside-multibyte") or out.fired
                          or any(k.startswith("seek:") for k in out.probes))
    out.probe("scenario:" + sc)
    if opts.get("want_sample"):
        out.sample = {"scenario": sc, "shape": repr(shape), "tape": {k: v[:60] for k, v in rec.items()}}
    return out
