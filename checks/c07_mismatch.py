"""C07 (run-time facet) -- assertThat/assert_that raise MismatchError exactly when match()
returns a mismatch; expectThat never raises but makes the test fail once it has finished;
mismatch details arrive under non-clobbering names."""

from simkit.driver import Outcome
from simkit.program import Cfg, gen_program
from simkit import lifecycle as lc

ID = "C07"
RUNS = {"quick": 300_000, "thorough": 3_000_000}
SIM_TIME_UNIT = "scripted user operations executed"
RULE = (
    "each run = one generated program whose stages (any stage, any cleanup) call assertThat / expectThat / "
    "assert_that with a scripted matcher returning None or a scripted mismatch (non-ASCII description, "
    "details under colliding names), combined with the C01 fault plans; distinct = digest of (raised "
    "kinds+stages, executed-op shape, outcome); non-trivial = >=1 mismatching assertThat/expectThat executed"
)
REAL_STUB = {
    "real": ["TestCase.assertThat/expectThat/_matchHelper/addDetailUniqueName", "testtools.assertions.assert_that",
             "MismatchError", "RunTest force_failure handling"],
    "stub": ["matchers and mismatches (scripted)", "user stages", "extended recording target"],
}
ASSUMPTIONS = [
    "only the behaviour inside a test run is decided here; str()/describe()/get_details()/text_repr of the stock matchers are pure functions and are not a simulation target (DESIGN section 4)",
]


def run_one(tape, opts):
    out = Outcome()
    c = Cfg()
    c.raise_num, c.raise_den = (1, 4) if tape.chance("config", 1, 2, "fault-rate") else (1, 8)
    c.max_ops = 1 + tape.draw("config", 3, "max-ops")
    c.patches = False
    c.fixtures = False
    c.onexc = False
    c.handlers = False
    c.kinds = tuple(k for k in c.kinds if k != "user")
    c.details = tape.chance("config", 1, 2, "details")
    flavour = tape.choice("config", ("extended", "testtools"), "flavour")
    if opts.get("tier") == "thorough":
        c.max_ops += 2
        c.max_cleanups += 2
    runner = lc.draw_runner(tape)
    if runner != "plain":
        c.skip_decorators = False     # what @skip does to setUp/tearDown under the Twisted runners is not in any property
    prog = gen_program(tape, c)
    sim = lc.simulate(prog, flavour, runner=runner)
    rr = sim.runs[0]
    lc.oracle_matchers(sim, rr, out)
    m = sim.model
    for r in m.R:
        out.fire("raise:" + r.kind)
    out.plan("user-exception")
    for what, oid, has_mm, raised, nseen in rr.op_obs:
        out.probe(f"{what}:{'mismatch' if has_mm else 'match'}")
    out.nontrivial = bool(m.expect_mismatches or m.assert_mismatches)
    out.steps = len(rr.exec_log)
    out.sim_time = float(out.steps)
    out.hhash = lc.history_hash(sim)
    out.probe("runner:" + runner)
    if opts.get("want_sample"):
        out.sample = lc.sample_of(sim)
    return out
