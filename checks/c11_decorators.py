"""C11 -- CopyStreamResult, StreamTagger, TimestampingStreamResult, StreamFailFast and
StreamToQueue pass every startTestRun/stopTestRun/status call to each target exactly once
and in order, altering only the field they own; supplied timestamps and other fields are
never changed, the caller's argument objects are never mutated, and what one target receives
is independent of the other targets and of sibling decorators."""

import copy

from testtools.testresult.real import (
    CopyStreamResult, StreamTagger, TimestampingStreamResult, StreamFailFast, StreamToQueue,
)

from simkit.driver import Outcome
from simkit.targets import World, TStream
from simkit.tape import digest_of
from simkit import vclock

ID = "C11"
RUNS = {"quick": 500_000, "thorough": 4_000_000}
SIM_TIME_UNIT = "virtual milliseconds (1 per delivered call)"
RULE = (
    "each run = a tree (depth 1..3, fan-out 1..3) of CopyStreamResult / StreamTagger / TimestampingStreamResult / "
    "StreamToQueue (its queue drained back into status(**event) at seeded points) over recording sinks and "
    "StreamFailFast leaves, fed startTestRun, 1..8 status events (ids, statuses, files, route codes, timestamps given "
    "or missing, test_tags given as set / frozenset / None), stopTestRun; the virtual clock is what "
    "TimestampingStreamResult reads; each decorator is modelled as a pure function on the event; distinct = digest "
    "of (tree shape, event field classes); non-trivial = tree has >=2 leaves or depth >=2"
)
REAL_STUB = {
    "real": ["CopyStreamResult", "StreamTagger", "TimestampingStreamResult", "StreamFailFast", "StreamToQueue"],
    "stub": ["sinks (recording, well-behaved)", "queue + drain loop (list, drained at seeded points)", "wall clock (virtual)"],
}
ASSUMPTIONS = [
    "sinks are well-behaved (they do not mutate what they receive): aliasing is observed through decorators' own writes only",
    "cross-sink delivery order is not compared (a queue drains later), per-sink order is",
]

TAGS = ("a", "b", "c")


def gen_tree(tape, depth, counter):
    kinds = [(3, "sink")]
    if depth < 3:
        kinds += [(3, "copy"), (3, "tagger"), (2, "timestamp"), (2, "queue")]
    kinds += [(1, "failfast")]
    kind = tape.weighted("config", kinds, "node") if depth > 0 else tape.weighted("config", [(3, "copy"), (3, "tagger"), (2, "timestamp"), (2, "queue")], "root")
    counter[0] += 1
    node = {"kind": kind, "n": counter[0]}
    if kind in ("copy", "tagger"):
        node["children"] = [gen_tree(tape, depth + 1, counter) for _ in range(1 + tape.draw("config", 3, "fanout"))]
        if kind == "tagger":
            node["add"] = [t for t in TAGS if tape.chance("config", 1, 3, "add")]
            node["discard"] = [t for t in TAGS if t not in node["add"] and tape.chance("config", 1, 3, "discard")]
    elif kind in ("timestamp", "queue"):
        node["children"] = [gen_tree(tape, depth + 1, counter)]
        if kind == "queue":
            node["code"] = None if tape.chance("config", 1, 6, "queue-without-routing-code") else "q%d" % counter[0]
    return node


def gen_events(tape, big=False):
    evs = []
    for i in range(1 + tape.draw("program", 16 if big else 8, "n-events")):
        ev = {"test_id": tape.choice("program", (None, "x", "y"), "id"),
              "test_status": tape.choice("program", (None, "inprogress", "success", "fail", "uxsuccess", "skip"), "status")}
        tk = tape.draw("program", 4, "tags-kind")
        if tk == 1:
            ev["test_tags"] = ("set", [t for t in TAGS if tape.chance("payload", 1, 2, "tag")])
        elif tk == 2:
            ev["test_tags"] = ("frozenset", [t for t in TAGS if tape.chance("payload", 1, 2, "tag")])
        elif tk == 3:
            ev["test_tags"] = ("none", None)
        if tape.chance("program", 1, 3, "file"):
            ev["file_name"] = "f"
            ev["file_bytes"] = b"<%d>" % i
            ev["eof"] = tape.chance("program", 1, 2, "eof")
            ev["mime_type"] = "text/plain"
        if tape.chance("program", 1, 3, "route"):
            ev["route_code"] = tape.choice("program", ("r", "r/s"), "route")
        if tape.chance("program", 1, 2, "timestamp"):
            # mostly in the past of the (virtual) clock, sometimes far in its future
            ev["timestamp"] = (i + 1) if tape.chance("program", 3, 4, "past") else 2_000_000_000 + i
        if tape.chance("program", 1, 6, "runnable"):
            ev["runnable"] = False
        evs.append(ev)
    return evs


class Built:
    def __init__(self):
        self.sinks = {}       # n -> TStream
        self.failfast = {}    # n -> list of callback marks
        self.queues = []      # (node n, list, child object)


def build(node, world, built):
    k = node["kind"]
    if k == "sink":
        s = TStream(world, "sink%d" % node["n"])
        built.sinks[node["n"]] = s
        return s
    if k == "failfast":
        marks = []
        built.failfast[node["n"]] = marks
        return StreamFailFast(lambda m=marks: m.append(world.tick()))
    kids = [build(c, world, built) for c in node["children"]]
    if k == "copy":
        return CopyStreamResult(kids)
    if k == "tagger":
        return StreamTagger(kids, add=node["add"], discard=node["discard"])
    if k == "timestamp":
        return TimestampingStreamResult(kids[0])
    q = _ListQueue()
    built.queues.append((node["n"], q, kids[0]))
    return StreamToQueue(q, node["code"])


class _ListQueue:
    def __init__(self):
        self.items = []

    def put(self, item):
        self.items.append(item)


# ---------------------------------------------------------------------------------- model
def expected(node, calls, exp_sinks, exp_ff):
    """calls: list of ('start',) | ('stop',) | ('status', fields-dict).  Pure functions."""
    k = node["kind"]
    if k == "sink":
        exp_sinks[node["n"]] = calls
        return
    if k == "failfast":
        exp_ff[node["n"]] = sum(1 for c in calls if c[0] == "status" and c[1].get("test_status") in ("fail", "uxsuccess"))
        return
    if k == "copy":
        for c in node["children"]:
            expected(c, calls, exp_sinks, exp_ff)
        return
    if k == "tagger":
        outc = []
        for c in calls:
            if c[0] == "status":
                f = dict(c[1])
                tags = set(f.get("test_tags") or ())
                tags |= set(node["add"])
                tags -= set(node["discard"])
                f["test_tags"] = frozenset(tags) if tags else None
                outc.append(("status", f))
            else:
                outc.append(c)
        for ch in node["children"]:
            expected(ch, outc, exp_sinks, exp_ff)
        return
    if k == "timestamp":
        outc = []
        for c in calls:
            if c[0] == "status" and c[1].get("timestamp") is None:
                f = dict(c[1])
                f["timestamp"] = "CLOCK"
                outc.append(("status", f))
            else:
                outc.append(c)
        expected(node["children"][0], outc, exp_sinks, exp_ff)
        return
    if k == "queue":
        outc = []
        for c in calls:
            if c[0] == "status":
                f = dict(c[1])
                rc = f.get("route_code")
                f["route_code"] = node["code"] if rc is None else (rc if node["code"] is None else node["code"] + "/" + rc)
                outc.append(("status", f))
            else:
                outc.append(c)
        expected(node["children"][0], outc, exp_sinks, exp_ff)


FIELDS = ("test_id", "test_status", "test_tags", "runnable", "file_name", "file_bytes", "eof", "mime_type", "route_code", "timestamp")
DEFAULTS = {"runnable": True, "eof": False}


def run_one(tape, opts):
    out = Outcome()
    counter = [0]
    tree = gen_tree(tape, 0, counter)
    events = gen_events(tape, big=opts.get("tier") == "thorough")
    clock = vclock.VClock()
    vclock.install(clock)
    world = World()
    built = Built()
    try:
        root = build(tree, world, built)
    except Exception as e:
        vclock.uninstall()
        raise
    calls_model = [("start",)]
    caller_objs = []
    # a second tree of the same shape, alive at the same time, fed its own events between the main one's
    decoy = None
    if tape.chance("config", 1, 3, "decoy-tree"):
        w2, b2 = World(), Built()
        decoy = (build(tree, w2, b2), b2, w2, [("start",)])

    def drain(all_=False):
        progressed = True
        while progressed:
            progressed = False
            for n, q, child in built.queues + (decoy[1].queues if decoy is not None else []):
                while q.items:
                    item = dict(q.items.pop(0))
                    ev = item.pop("event")
                    clock.tick()
                    if ev == "status":
                        child.status(**item)
                    elif ev == "startTestRun":
                        child.startTestRun()
                    elif ev == "stopTestRun":
                        child.stopTestRun()
                    progressed = True
            if not all_:
                break

    raised = None
    t_lo = clock.peek()
    try:
        root.startTestRun()
        if decoy is not None:
            decoy[0].startTestRun()
        for i, ev in enumerate(events):
            clock.tick()
            kw = {}
            fields = {}
            for k, v in ev.items():
                if k == "test_tags":
                    kind, tags = v
                    obj = None if kind == "none" else (set(tags) if kind == "set" else frozenset(tags))
                    kw[k] = obj
                    fields[k] = None if obj is None else frozenset(obj)
                    if obj is not None:
                        caller_objs.append((obj, copy.copy(obj), kind))
                elif k == "timestamp":
                    kw[k] = vclock.explicit_time(v)
                    fields[k] = kw[k]
                else:
                    kw[k] = v
                    fields[k] = v
            calls_model.append(("status", fields))
            root.status(**kw)
            if decoy is not None:
                dkw = {"test_id": "decoy%d" % i, "test_status": ("fail", "inprogress", None)[i % 3], "test_tags": {"dk%d" % (i % 2)},
                       "route_code": "dr" if i % 2 else None, "file_name": "dlog", "file_bytes": b"d%d" % i}
                decoy[3].append(("status", dict(dkw, test_tags=frozenset(dkw["test_tags"]))))
                decoy[0].status(**dkw)
            if tape.chance("schedule", 1, 2, "drain-now"):
                drain()
        root.stopTestRun()
        calls_model.append(("stop",))
        if decoy is not None:
            decoy[0].stopTestRun()
            decoy[3].append(("stop",))
        drain(all_=True)
    except Exception as e:   # noqa: inputs are in the property's domain; a decorator must not raise
        import traceback
        raised = e
        tb = traceback.extract_tb(e.__traceback__)
        where = next((f.name for f in reversed(tb) if "testresult/real.py" in f.filename), "?")
        out.violate("decorator-raised", f"{type(e).__name__}-in-{where}", f"tree {tree}\nevents {events}\n{traceback.format_exc()[-800:]}")
    finally:
        t_hi = clock.peek()
        vclock.uninstall()

    # caller's objects never mutated
    for obj, snap, kind in caller_objs:
        if obj != snap:
            out.violate("caller-arg-mutated", "test_tags", f"caller's {kind} {sorted(snap)} became {sorted(obj)}; tree {tree}")
            break
    if raised is None:
        _compare(out, tree, built, world, calls_model, t_lo, t_hi, "")
        if decoy is not None:
            _compare(out, tree, decoy[1], decoy[2], decoy[3], t_lo, t_hi, "decoy:")
            out.probe("decoy-tree")
    # accounting
    leaves = len(built.sinks) + len(built.failfast)
    out.nontrivial = leaves >= 2 or _depth(tree) >= 2
    for ev in events:
        if "test_tags" in ev:
            out.probe("tags-as-" + ev["test_tags"][0])
    for k in ("copy", "tagger", "timestamp", "queue", "failfast"):
        if _has(tree, k):
            out.probe("node:" + k)
    out.steps = len(world.events)
    out.sim_time = float(clock.ticks)
    out.hhash = digest_of(_shape(tree), [(e.get("test_status"), e.get("test_tags", ("absent",))[0], "timestamp" in e, "route_code" in e) for e in events])
    out.ihash = digest_of(tape.record.get("schedule", []))
    if opts.get("want_sample"):
        out.sample = {"tree": tree, "events": [{k: (v.decode() if isinstance(v, bytes) else v) for k, v in e.items()} for e in events],
                      "sink_calls": {s._name: sum(1 for e in world.events if e.target == s._name) for s in built.sinks.values()}}
    return out


def _compare(out, tree, built, world, calls_model, t_lo, t_hi, label):
    """Every sink's log against the model of the tree (pure functions of the calls made at the root)."""
    exp_sinks, exp_ff = {}, {}
    expected(tree, calls_model, exp_sinks, exp_ff)
    for n, sink in built.sinks.items():
        got = [e for e in world.events if e.target == sink._name]
        want = exp_sinks.get(n, [])
        gm = [("start",) if e.method == "startTestRun" else ("stop",) if e.method == "stopTestRun" else ("status", e.data) for e in got]
        if len(gm) != len(want):
            out.violate("forward-mismatch", label + "call-count-" + ("lost" if len(gm) < len(want) else "duplicated"),
                        f"sink{n}: got {len(gm)} calls, expected {len(want)}; tree {tree}")
            continue
        for g, w in zip(gm, want):
            if g[0] != w[0]:
                out.violate("forward-mismatch", label + "order", f"sink{n}: got {g[0]} expected {w[0]}")
                break
            if g[0] != "status":
                continue
            bad = None
            for f in FIELDS:
                wv = w[1].get(f, DEFAULTS.get(f))
                gv = g[1].get(f)
                if f == "timestamp" and wv == "CLOCK":
                    us = vclock.us_of(gv)
                    if gv is None or us is None or not (t_lo < us <= t_hi):
                        bad = f"timestamp-not-filled"
                    continue
                if f == "test_tags":
                    # "no tags" may travel as None or as an empty set: the property does not say which
                    gv, wv = gv or None, wv or None
                if gv != wv:
                    bad = f
                    break
            if bad:
                out.violate("forward-mismatch", label + "field:" + bad, f"sink{n}: received {g[1]} expected {w[1]}; tree {tree}")
                break
    for n, marks in built.failfast.items():
        if len(marks) != exp_ff.get(n, 0):
            out.violate("forward-mismatch", label + "failfast-callback-count", f"failfast{n}: {len(marks)} callbacks, expected {exp_ff.get(n)}")


def _depth(node):
    return 1 + max([_depth(c) for c in node.get("children", [])] or [0])


def _has(node, kind):
    return node["kind"] == kind or any(_has(c, kind) for c in node.get("children", []))


def _shape(node):
    return (node["kind"], tuple(node.get("add", ())), tuple(node.get("discard", ())), tuple(_shape(c) for c in node.get("children", [])))
