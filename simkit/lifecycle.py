"""Lifecycle simulator: framework code driving scripted user stages under a fault plan.

Shared by C01, C02, C03, C05 and C07: ``simulate`` runs one generated program against
one result flavour with the real TestCase.run/RunTest, and the ``oracle_*`` functions
compare what happened with the reference model (simkit.program.Model).
"""

import testtools
from testtools.testresult.real import ExtendedToStreamDecorator

from .program import (
    Cfg, Env, Model, build_case, gen_program, jsonable, FAILING,
)
from .targets import World, make_target, OUTCOMES, snap_details, snap_err, Event, test_id_of, _Base as _TargetBase
from .tape import digest_of

FLAVOURS = ("extended", "testtools", "2.7", "2.6", "twisted", "stream", "none")

# which RunTest drives the program: the property speaks of "running a TestCase"; the Twisted
# runners are RunTest variants and the scripted stages (which return None) are valid under them
RUNNERS = ("plain", "syncdeferred", "async", "asyncbroken")


def draw_runner(tape):
    return tape.weighted("config", [(6, "plain"), (1, "syncdeferred"), (2, "async"), (1, "asyncbroken")], "runner")


_twisted_ready = []


def _runner_factory(runner):
    """Returns (run_test_with, reactor-or-None)."""
    if runner == "plain":
        return None, None
    from testtools.twistedsupport import _runtest as rt
    if not _twisted_ready:
        _twisted_ready.append(1)
        try:   # keep Twisted from printing buffered "Unhandled Error" reports to stderr
            from twisted.logger import globalLogBeginner
            globalLogBeginner.beginLoggingTo([lambda event: None], redirectStandardIO=False, discardBuffer=True)
        except Exception:   # pragma: no cover
            pass
    if runner == "syncdeferred":
        return rt.SynchronousDeferredRunTest, None
    from .reactor import SimReactor, Sim
    reactor = SimReactor(Sim())
    cls = rt.AsynchronousDeferredRunTestForBrokenTwisted if runner == "asyncbroken" else rt.AsynchronousDeferredRunTest
    return cls.make_factory(reactor=reactor, timeout=1000.0), reactor

KIND_OF_METHOD = {
    "addSuccess": "success", "addFailure": "failure", "addError": "error",
    "addSkip": "skip", "addExpectedFailure": "xfail", "addUnexpectedSuccess": "uxsuccess",
}
KIND_OF_STATUS = {
    "success": "success", "fail": "failure", "skip": "skip", "xfail": "xfail",
    "uxsuccess": "uxsuccess",
}


class LoggingTestResult(testtools.TestResult):
    """The real testtools.TestResult, with every call also logged to the world."""

    flavour = "testtools"

    def __init__(self, world, name="TTR", **kw):
        self._w = world
        self._name = name
        super().__init__(**kw)

    def _rec(self, method, test=None, data=None):
        w = self._w
        w.events.append(Event(w.tick(), w.thread_of(), self._name, method,
                              None if test is None else test_id_of(test), data))

    def startTestRun(self):
        if hasattr(self, "_w"):
            self._rec("startTestRun")
        super().startTestRun()

    def stopTestRun(self):
        self._rec("stopTestRun")
        super().stopTestRun()

    def startTest(self, test):
        self._rec("startTest", test)
        super().startTest(test)

    def stopTest(self, test):
        self._rec("stopTest", test)
        super().stopTest(test)

    def _out(self, method, test, err, details, reason=None):
        self._rec(method, test, {"err": snap_err(err), "details": snap_details(details),
                                 "reason": reason, "tags": frozenset(self.current_tags)})

    def addSuccess(self, test, details=None):
        self._out("addSuccess", test, None, details)
        super().addSuccess(test, details=details)

    def addError(self, test, err=None, details=None):
        self._out("addError", test, err, details)
        super().addError(test, err, details=details)

    def addFailure(self, test, err=None, details=None):
        self._out("addFailure", test, err, details)
        super().addFailure(test, err, details=details)

    def addSkip(self, test, reason=None, details=None):
        self._out("addSkip", test, None, details, reason)
        super().addSkip(test, reason, details=details)

    def addExpectedFailure(self, test, err=None, details=None):
        self._out("addExpectedFailure", test, err, details)
        super().addExpectedFailure(test, err, details=details)

    def addUnexpectedSuccess(self, test, details=None):
        self._out("addUnexpectedSuccess", test, None, details)
        super().addUnexpectedSuccess(test, details=details)


class RunRecord:
    """What one TestCase.run() call did."""

    def __init__(self):
        self.events = []
        self.exec_log = []
        self.raised = None      # exception that propagated out of run()
        self.returned = None
        self.outcomes = []      # (kind, event)
        self.bracket_ok = None
        self.cleanups_left = None
        self.handler_log = []
        self.op_obs = []
        self.clobbered = []
        self.was_successful = None
        self.seq_outcome = None


class Sim:
    def __init__(self):
        self.prog = None
        self.model = None
        self.flavour = None
        self.runs = []
        self.env = None
        self.case = None


def simulate(prog, flavour, nruns=1, run_test_with=None, runner="plain"):
    sim = Sim()
    sim.prog = prog
    sim.flavour = flavour
    sim.runner = runner
    reactor = None
    if run_test_with is None and runner != "plain":
        run_test_with, reactor = _runner_factory(runner)
    sim.reactor = reactor
    sim.model = Model(prog)
    world = World()
    env = Env(prog, world)
    sim.env = env
    case = build_case(prog, env, run_test_with=run_test_with)
    sim.case = case
    for _ in range(nruns):
        world.events = []
        world.exec_log = []
        env.reset_sources()
        env.handler_log = []
        env.op_obs = []
        env.clobbered = []
        env.user_handler_log = []
        rr = RunRecord()
        target = None
        if flavour == "testtools":
            target = LoggingTestResult(world)
            result = target
        elif flavour == "stream":
            target = make_target("stream", world)
            result = ExtendedToStreamDecorator(target)
        elif flavour == "none":
            target = make_target("extended", world)
            case.defaultTestResult = lambda t=target: t
            result = None
        else:
            target = make_target(flavour, world)
            result = target
        if prog.get("falsy_result") and isinstance(target, _TargetBase):
            target._falsy = True
        import signal as _signal
        saved_sig = None
        if reactor is not None:
            saved_sig = {s_: _signal.getsignal(s_) for s_ in (_signal.SIGINT, _signal.SIGTERM, _signal.SIGCHLD)}
        try:
            rr.returned = case.run(result)
        except BaseException as e:   # noqa: the property is about what propagates
            rr.raised = e
        finally:
            if saved_sig is not None:
                for s_, h_ in saved_sig.items():
                    _signal.signal(s_, h_)
                from testtools.twistedsupport import _runtest as _rt
                _rt._log_observer.flushErrors()
        rr.events = world.events
        rr.exec_log = [e[1:] for e in world.exec_log]
        rr.exec_seq = [e[0] for e in world.exec_log]
        # (a private attribute: where it does not exist the clause falls back on what a re-run shows)
        rr.cleanups_left = list(getattr(case, "_cleanups", ()))
        rr.handler_log = env.handler_log
        rr.op_obs = env.op_obs
        rr.clobbered = env.clobbered
        rr.user_handler_log = env.user_handler_log
        from .program import observe_obj
        rr.objs_state = [observe_obj(o) for o in env.objs]
        if flavour == "testtools":
            rr.was_successful = target.wasSuccessful()
        elif flavour in ("extended", "none", "2.7", "2.6", "twisted"):
            rr.was_successful = target.wasSuccessful()
        elif flavour == "stream":
            rr.was_successful = result.wasSuccessful()
        _extract(rr, flavour, case.id())
        sim.runs.append(rr)
    return sim


def _extract(rr, flavour, test_id):
    """Find the bracket and outcome(s) for the test in the target log."""
    rr.outcomes = []
    if flavour == "stream":
        evs = [e for e in rr.events if e.method == "status" and e.test_id == test_id]
        rr.stream_events = evs
        for e in evs:
            st = e.data["test_status"]
            if st is not None and st != "inprogress":
                rr.outcomes.append((KIND_OF_STATUS.get(st, st), e))
        return
    for e in rr.events:
        if e.method in OUTCOMES and e.test_id == test_id:
            rr.outcomes.append((KIND_OF_METHOD[e.method], e))


# ------------------------------------------------------------------------------ oracles
def oracle_bracket(sim, rr, out):
    """C01: bracket, exactly one outcome, BaseException reported + re-raised."""
    m = sim.model
    flavour = sim.flavour
    tid = sim.case.id()
    if flavour == "stream":
        evs = rr.stream_events
        names = [e.data["test_status"] for e in evs]
        if not evs or names[0] != "inprogress":
            out.violate("missing-bracket", "stream:no-inprogress-first", f"first events {names[:3]}")
        finals = [i for i, e in enumerate(evs) if e.data["test_status"] not in (None, "inprogress")]
        if len(finals) != 1:
            out.violate("outcome-count", f"stream:{len(finals)}", f"final status events: {len(finals)}")
        elif finals[0] != len(evs) - 1:
            out.violate("missing-bracket", "stream:events-after-final", "events for the test after its final status")
    else:
        mine = [e for e in rr.events if e.test_id == tid and e.method in ("startTest", "stopTest") + OUTCOMES]
        seq = [e.method for e in mine]
        if not seq or seq[0] != "startTest":
            out.violate("missing-bracket", "no-startTest-first", f"calls: {seq}")
        if not seq or seq[-1] != "stopTest":
            out.violate("missing-bracket", "no-stopTest-last", f"calls: {seq}")
        if seq.count("startTest") != 1 or seq.count("stopTest") != 1:
            out.violate("missing-bracket", "bracket-count", f"calls: {seq}")
        n_out = sum(1 for s in seq if s in OUTCOMES)
        if n_out != 1:
            out.violate("outcome-count", f"{n_out}", f"calls: {seq}")
        if flavour == "none":
            allm = [e.method for e in rr.events]
            if not allm or allm[0] != "startTestRun" or allm[-1] != "stopTestRun" \
                    or allm.count("startTestRun") != 1 or allm.count("stopTestRun") != 1:
                out.violate("missing-bracket", "result-None:run-bracket", f"calls: {allm}")
    if m.skip_decorated is not None:
        if rr.raised is not None:
            out.violate("baseexception-not-propagated", "skip-decorated-raised", repr(rr.raised))
        return
    bases = [r for r in m.R if r.base]
    if bases:
        out.probe("base-exception-raised")
        if len(m.R) > 1:
            out.probe("base-exception-plus-other")
        from .program import Abort
        want = {"kbi": KeyboardInterrupt, "sysexit": SystemExit, "abort": Abort, "genexit": GeneratorExit}
        if rr.raised is None:
            out.violate(
                "baseexception-not-propagated",
                "swallowed:last-raised=" + m.outcome_of(m.R[-1]),
                f"user code raised {[r.as_list() for r in bases]} but run() returned; raised list {[r.as_list() for r in m.R]}",
            )
        elif not any(isinstance(rr.raised, want[r.kind]) and str(rr.raised) == r.marker for r in bases):
            out.violate("baseexception-not-propagated", "other-exception:" + type(rr.raised).__name__,
                        f"run() raised {rr.raised!r}, expected one of {[r.as_list() for r in bases]}")
        kinds = [k for k, _ in rr.outcomes]
        if len(kinds) == 1 and kinds[0] not in ("error", "failure" if flavour == "stream" else "error"):
            out.violate("baseexception-not-error", f"reported={kinds[0]}",
                        f"a non-Exception was raised but the outcome is {kinds[0]}")
        if rr.exec_log != m.log:
            out.violate("stage-skipped-after-baseexception", _first_diff(rr.exec_log, m.log),
                        f"executed {rr.exec_log} expected {m.log}")
    else:
        if rr.raised is not None:
            out.violate("unexpected-raise", type(rr.raised).__name__,
                        f"run() raised {rr.raised!r} although no non-Exception was raised by user code")


def _sig(m):
    """Abstract signature of the raised list: kinds and stages, no ids."""
    return ",".join(f"{r.kind}@{r.stage}" for r in m.R[-3:])


def _first_diff(got, want):
    for i, (a, b) in enumerate(zip(got, want)):
        if a != b:
            return f"at{'' }:{b[0]}-expected,{a[0]}-ran"
    if len(got) < len(want):
        return f"missing:{want[len(got)][0]}"
    if len(got) > len(want):
        return f"extra:{got[len(want)][0]}"
    return "same"


def oracle_exec(sim, out):
    """C02: stage order, cleanups exactly once LIFO, nothing left, re-run repeats."""
    m = sim.model
    env = sim.env
    for i, rr in enumerate(sim.runs):
        if m.skip_decorated is not None:
            if rr.exec_log:
                out.violate("exec-log-mismatch", "ran-although-skip-decorated", f"{rr.exec_log}")
            continue
        if rr.exec_log != m.log:
            out.violate("exec-log-mismatch", _first_diff(rr.exec_log, m.log) + (":rerun" if i else ""),
                        f"run {i}: executed {rr.exec_log}\nexpected {m.log}")
        if rr.cleanups_left:
            # (no count in the key: how many are left can depend on the depth of the call stack)
            out.violate("cleanup-left", "registered-after-run", f"run {i}: {len(rr.cleanups_left)} left: {rr.cleanups_left[:4]}")
        for j, (now, before) in enumerate(zip(rr.objs_state, env.obj_snap)):
            if set(now) != set(before) or any(now[k] is not before[k] for k in before):
                out.violate("patch-not-restored", "attr-present" if set(now) != set(before) else "value-differs",
                            f"run {i}: object {j} is {now}, was {before}")
    if len(sim.runs) > 1:
        out.probe("rerun")
        first = sim.runs[0]
        for i, rr in enumerate(sim.runs[1:], 1):
            if rr.exec_log != first.exec_log:
                out.violate("rerun-differs", "exec-log", f"run {i} executed {rr.exec_log}, run 0 {first.exec_log}")
            if [k for k, _ in rr.outcomes] != [k for k, _ in first.outcomes]:
                out.violate("rerun-differs", "outcome",
                            f"run {i} outcome {[k for k, _ in rr.outcomes]}, run 0 {[k for k, _ in first.outcomes]}")
            if (rr.raised is None) != (first.raised is None):
                out.violate("rerun-differs", "propagation", f"run {i} raised {rr.raised!r}, run 0 {first.raised!r}")


def oracle_outcome(sim, rr, out):
    """C03: success iff nothing raised; single exception maps by handler order; no downgrade."""
    m = sim.model
    if m.skip_decorated is not None:
        return
    kinds = [k for k, _ in rr.outcomes]
    nothing = (not m.R) and (not m.force)
    if len(kinds) != 1:
        # the bracket is C01's business, but a success reported although something raised is ours
        if "success" in kinds and not nothing and sim.flavour != "2.6":
            out.violate("success-but-raised", "one-of-several-outcomes", f"outcomes {kinds}; raised {[r.as_list() for r in m.R]} force={m.force}")
        if not kinds and not nothing and rr.was_successful is True and sim.flavour in ("testtools", "extended", "none"):
            # nothing at all was reported: to the result that run is indistinguishable from a pass
            out.violate("success-but-raised", "no-outcome;wasSuccessful-true",
                        f"no outcome reported and wasSuccessful() is True; raised {[r.as_list() for r in m.R]} force={m.force}")
        return
    got = kinds[0]
    flavour = sim.flavour
    if got == "success" and not nothing:
        out.violate("success-but-raised", ("raised" if m.R else "") + (";forced" if m.force else ""),
                    f"reported success; raised {[r.as_list() for r in m.R]} force={m.force}")
    if nothing and got != "success":
        out.violate("not-success-but-clean", f"reported={got}", "nothing raised, no mismatch, no force_failure")
    eff = [m.outcome_of(r) for r in m.R]
    if m.force:
        eff.append("failure")
    if len(eff) == 1:
        want = eff[0]
        if flavour == "stream" and want == "error":
            want = "failure"
        if got != want:
            r = m.R[0] if m.R else None
            out.violate("single-exception-misreported",
                        f"{'forced' if r is None else r.kind}->{got}",
                        f"exactly one exception {None if r is None else r.as_list()} maps to {want}, reported {got}")
    if len(eff) > 1:
        out.probe("multi-exception-run")
    # clause (c) speaks of what a *stage raised*: the forced failure is not part of it
    # (exceptions of user classes are what their user handler makes of them: not ranked here)
    failing = [m.outcome_of(r) for r in m.R if r.kind != "user" and m.outcome_of(r) in ("failure", "error")]
    benign_by_class = bool(rr.user_handler_log) and rr.user_handler_log[-1][1] == "User2"   # a SkipTest subclass
    if failing and rr.user_handler_log and not benign_by_class:
        # the outcome was reported by a user-inserted handler for a class the framework knows
        # nothing about: what it chooses to report is the user's business, it cannot be ranked
        out.probe("outcome-by-user-handler-with-failing-present")
    elif failing:
        worst = "error" if "error" in failing else "failure"
        if got not in FAILING:
            out.violate("downgrade", f"reported={got};masks={worst}",
                        f"raised {[r.as_list() for r in m.R]} force={m.force} (effects {eff}) but reported {got}")
        if rr.was_successful is True and flavour in ("testtools", "extended", "none", "2.7"):
            out.violate("downgrade", f"wasSuccessful-true;masks={worst}",
                        f"wasSuccessful() is True after raised {[r.as_list() for r in m.R]}")


def _tb_details(details):
    return [(n, d) for n, d in details.items() if d["type"][0] == "text" and d["type"][1] == "x-traceback"]


def oracle_details(sim, rr, out):
    """C05: every detail / traceback reaches the result; handlers once per exception, before outcome."""
    m = sim.model
    if len(rr.outcomes) != 1:
        return
    kind, ev = rr.outcomes[0]
    details = (ev.data or {}).get("details")
    if m.skip_decorated is not None:
        reason = (ev.data or {}).get("reason")
        if kind == "skip" and (reason is None or str(reason) != m.skip_decorated):
            if not (details and "reason" in details and details["reason"]["bytes"].decode("utf8") == m.skip_decorated):
                out.violate("detail-lost", "decorated-skip-reason", f"reason {reason!r} details {details}")
        return
    if details is None:
        out.violate("detail-lost", "no-details-dict", f"outcome {ev.method} carried no details")
        return
    clobbered = rr.clobbered
    all_bytes = [d["bytes"] for d in details.values()]
    # (a) user details under their own name with the bytes current at reporting time
    for name, cell in m.user_details.items():
        want = b"".join(m.cells[cell])
        d = details.get(name)
        if d is None:
            out.violate("detail-lost", "user-detail", f"user detail {name!r} missing; delivered {sorted(details)}")
        elif d["bytes"] != want:
            # was it replaced by a framework-generated detail of the same name?
            out.violate("stale-bytes" if d["bytes"].startswith(b"PL") else "detail-overwritten",
                        "user-detail", f"user detail {name!r}: delivered {d['bytes']!r} want {want!r}")
        else:
            shape = sim.prog["cells"][cell]["shape"]
            if (d["type"][0] == "text") != (shape == "text"):
                out.violate("detail-overwritten", "user-detail-type", f"{name!r} type {d['type']}")
    # (b) mismatch / fixture payloads somewhere (renamed allowed), unless the user clobbered them
    volatile = [(src, name, b"".join(m.cells[cell])) for src, name, cell in getattr(m, "mm_cellrefs", [])]
    if volatile:
        out.probe("volatile-mismatch-detail")
    for src, name, payload in m.mm_payloads + m.fx_payloads + volatile:
        if payload in all_bytes:
            continue
        if payload in clobbered or (clobbered and (src, name, payload) in volatile):
            out.probe("user-clobbered-generated")
            continue
        out.violate("detail-lost", "mismatch-detail" if isinstance(src, int) else "fixture-detail",
                    f"payload {payload!r} (name {name!r} from {src}) not delivered; names {sorted(details)}")
    if any(n != base for n in details for base in [n.rsplit("-", 1)[0]] if n not in m.user_details and base in details):
        out.probe("name-collision-renamed")
    # (c) one traceback per failure/error
    tbs = [d["bytes"].decode("utf8", "replace") for n, d in _tb_details(details)]
    clob_text = [c.decode("utf8", "replace") for c in clobbered]
    for r in m.R:
        eff = m.outcome_of(r)
        need = None
        if r.kind == "xfail":
            if isinstance(r.extra, dict) and r.extra.get("decorator"):
                behind = r.extra["behind"]
                need = [b[1] for b in behind if b[1] and b[0] not in ("skip", "uxsuccess", "xfail")][:1]
                need = need[0] if need else None
                where = "decorator-xfail"
            else:
                need = r.tb_marker
                where = "expectFailure"
        elif r.tb_marker and (eff in ("failure", "error") or r.base):
            need = r.tb_marker
            where = r.kind + ("-in-multi" if r.part_of_multi else "")
        if need is None:
            continue
        n = sum(1 for t in tbs if need in t)
        wanted = sum(1 for r2 in m.R if r2.tb_marker == need) if where != "decorator-xfail" else 1
        if n >= wanted:
            continue
        if any(need in c for c in clob_text):
            out.probe("user-clobbered-generated")
            continue
        out.violate("traceback-missing", where,
                    f"no traceback detail mentions {need!r} for {r.as_list()}; details {sorted(details)}")
    # expectThat mismatches leave a 'Failed expectation' stack detail
    for oid, mm in m.expect_mismatches:
        if not any(mm["desc"] in t for t in tbs) and not any(mm["desc"] in c for c in clob_text):
            out.violate("traceback-missing", "failed-expectation", f"no detail mentions mismatch {mm['desc']!r}")
    # (d) skip reason
    if kind == "skip":
        from .program import skip_reason_text
        reasons = [skip_reason_text(r.marker, r.extra) if r.kind == "skip" else r.marker for r in m.R if m.outcome_of(r) == "skip"]
        if None in reasons:
            reasons = []     # a SkipTest() without arguments: any placeholder reason will do
        d = details.get("reason")
        if d is None:
            out.violate("detail-lost", "skip-reason", f"skip without reason detail; raised {[r.as_list() for r in m.R]}")
        elif reasons and d["bytes"].decode("utf8", "replace") not in reasons + ["user-handler-skip"]:
            out.violate("detail-overwritten", "skip-reason", f"reason {d['bytes']!r} not among {reasons}")
    # (e) on-exception handlers: once per exception, all before the outcome
    want_calls = []
    for r in m.R:
        for h in r.handlers:
            want_calls.append(h)
    got_calls = [h for _, h, _, _ in rr.handler_log]
    got_user = [h for _, h, cname, text in rr.handler_log if text != "Forced Test Failure"]
    if sorted(got_user) != sorted(want_calls):
        out.violate("handler-count", f"got{len(got_user)}-want{len(want_calls)}",
                    f"handler calls {rr.handler_log} expected {want_calls} for {[r.as_list() for r in m.R]}")
    if rr.handler_log:
        out.probe("onexception-handler-called", len(rr.handler_log))
        if any(seq > ev.seq for seq, _, _, _ in rr.handler_log):
            out.violate("handler-after-outcome", "late", f"{rr.handler_log} outcome seq {ev.seq}")


def oracle_matchers(sim, rr, out):
    """C07 (run-time facet): assertThat raises iff mismatch, expectThat never raises but fails later."""
    m = sim.model
    if m.skip_decorated is not None:
        return
    for what, oid, has_mm, raised, nseen in rr.op_obs:
        if nseen != 1:
            out.violate("assertThat-verdict", f"{what}:match-called-{nseen}", f"op {oid}")
        if what in ("assert", "assert_fn"):
            if has_mm and raised != "MismatchError":
                out.violate("assertThat-verdict", f"{what}:mismatch-not-raised", f"op {oid} raised {raised}")
            if not has_mm and raised is not None:
                out.violate("assertThat-verdict", f"{what}:raised-on-match", f"op {oid} raised {raised}")
        else:
            # (has_mm == "raises": the scripted mismatch's own describe() raises - that error is the stage's)
            if raised is not None and has_mm != "raises":
                out.violate("expectThat-raised", "has-mismatch" if has_mm else "no-mismatch", f"op {oid} raised {raised}")
    if m.expect_mismatches:
        out.probe("expectThat-mismatch")
        kinds = [k for k, _ in rr.outcomes]
        if len(kinds) == 1:
            kind, ev = rr.outcomes[0]
            eff = [m.outcome_of(r) for r in m.R]
            if kind not in FAILING:
                out.violate("expectThat-not-failing", f"reported={kind}",
                            f"expectThat mismatched but the test is reported as {kind}; raised {[r.as_list() for r in m.R]}")
            # the failure is reported only once the test has finished: every op the model
            # predicts ran, and ran before the outcome call
            if rr.exec_log != m.log:
                out.violate("expectThat-early", _first_diff(rr.exec_log, m.log),
                            f"executed {rr.exec_log} expected {m.log}")
            elif rr.exec_seq and max(rr.exec_seq) > ev.seq:
                out.violate("expectThat-early", "outcome-before-last-op", f"outcome seq {ev.seq} ops {rr.exec_seq}")
            details = (ev.data or {}).get("details") or {}
            all_bytes = [d["bytes"] for d in details.values()]
            for src, name, payload in m.mm_payloads:
                if payload not in all_bytes and payload not in rr.clobbered and "details" in (ev.data or {}):
                    out.violate("mismatch-detail-lost", "payload", f"{payload!r} from op {src}; names {sorted(details)}")
    elif m.mm_payloads and len(rr.outcomes) == 1:
        kind, ev = rr.outcomes[0]
        if ev.data and ev.data.get("details") is not None:
            all_bytes = [d["bytes"] for d in ev.data["details"].values()]
            for src, name, payload in m.mm_payloads:
                if payload not in all_bytes and payload not in rr.clobbered:
                    out.violate("mismatch-detail-lost", "payload", f"{payload!r} from op {src}")


def history_hash(sim):
    m = sim.model
    return digest_of(
        sim.flavour, getattr(sim, "runner", "plain"),
        [(r.kind, r.stage) for r in m.R], m.force, [e[0] for e in m.log],
        [[k for k, _ in rr.outcomes] for rr in sim.runs],
        [type(rr.raised).__name__ for rr in sim.runs],
    )


def sample_of(sim):
    return {
        "flavour": sim.flavour, "runner": getattr(sim, "runner", "plain"),
        "program": jsonable({k: sim.prog[k] for k in ("class_skip", "method_skip", "xfail_decorator", "handlers", "stages", "cleanups", "fixtures")}),
        "model_raised": [r.as_list() for r in sim.model.R],
        "force_failure": sim.model.force,
        "runs": [
            {
                "target_calls": [e.method if e.method != "status" else "status:%s" % e.data["test_status"] for e in rr.events][:40],
                "executed": [list(x) for x in rr.exec_log][:60],
                "outcome": [k for k, _ in rr.outcomes],
                "run_raised": None if rr.raised is None else repr(rr.raised),
            }
            for rr in sim.runs
        ],
    }
