"""SimReactor: a virtual-time Twisted reactor.

Real Twisted code (ReactorBase): the delayed-call heap, callLater/cancel/reset,
runUntilCurrent, timeout(), callWhenRunning, the three-phase startup/shutdown events,
startRunning/stop/crash state, the callFromThread queue, iterate(), sigInt/sigTerm ->
callFromThread(self.stop) and _WithSignalHandling.install (which really calls
signal.signal).

Replaced: seconds() returns the virtual clock; doIteration(delay) never touches a
descriptor -- it advances the clock to min(now+delay, next external event) and fires that
event if due; installWaker/wakeUp are no-ops (a non-empty callFromThread queue makes
doIteration return at once, which is what the waker achieves); the reader/writer sets are
plain sets of fake selectables; SIGCHLD handling is a small stand-in that installs a
handler at start-up and resets it to SIG_DFL on uninstall.

The external-event queue is how the outside world is injected without itself becoming
reactor junk: (virtual time, kind) entries -- sigint / sigterm (the simulator calls
whatever handler is installed at that instant), stop (reactor.stop()), readable.
"""

import signal

from twisted.internet.base import ReactorBase
from twisted.internet._signals import _MultiSignalHandling


class SimHang(BaseException):
    """The real reactor would sleep forever here (or the iteration cap was exceeded)."""


class FakeSelectable:
    def __init__(self, name):
        self.name = name
        self.lost = 0
        self.reads = 0

    def fileno(self):
        return -1

    def doRead(self):
        self.reads += 1

    def doWrite(self):
        pass

    def connectionLost(self, reason):
        self.lost += 1

    def logPrefix(self):
        return self.name

    def __repr__(self):
        return f"<FakeSelectable {self.name}>"


class _SimChildSignalHandling:
    """Observable effect of Twisted's _ChildSignalHandling without the wake-up fd."""

    def __init__(self, sim):
        self.sim = sim

    def _handler(self, signum, frame):
        self.sim.log.append(("sigchld-handler",))

    def install(self):
        signal.signal(signal.SIGCHLD, self._handler)

    def uninstall(self):
        signal.signal(signal.SIGCHLD, signal.SIG_DFL)


class Sim:
    """Virtual time + external events + statistics for one SimReactor."""

    def __init__(self, iteration_cap=2000):
        self.now = 0.0
        self.events = []          # sorted list of (time, seq, kind)
        self._seq = 0
        self.iterations = 0
        self.iteration_cap = iteration_cap
        self.log = []
        self.fired = []
        self.dropped = 0
        self.hang = None
        self.reactor = None

    def schedule(self, at, kind):
        self._seq += 1
        self.events.append((float(at), self._seq, kind))
        self.events.sort()

    def next_event_time(self):
        return self.events[0][0] if self.events else None

    def drop_events(self):
        self.dropped += len(self.events)
        self.events = []

    def fire(self, kind):
        """Deliver one external event right now (also used for interrupt_here)."""
        self.fired.append((self.now, kind))
        r = self.reactor
        if kind in ("sigint", "sigterm"):
            signum = signal.SIGINT if kind == "sigint" else signal.SIGTERM
            h = signal.getsignal(signum)
            self.log.append((kind, getattr(h, "__qualname__", repr(h))))
            if callable(h):
                h(signum, None)
        elif kind == "stop":
            r.stop()
        elif kind.startswith("stall:"):
            # the process was stalled (busy callback, suspended machine): the clock jumps, so that
            # several timed calls may be due in one iteration
            self.now += float(kind.split(":")[1])
        elif kind.startswith("readable"):
            for s in list(r._readers):
                if isinstance(s, FakeSelectable):
                    s.doRead()


class SimReactor(ReactorBase):
    def __init__(self, sim=None):
        self.sim = sim or Sim()
        self.sim.reactor = self
        self._readers = set()
        self._writers = set()
        super().__init__()

    # --- time
    def seconds(self):
        return self.sim.now

    # --- waker: none
    def installWaker(self):
        pass

    def wakeUp(self):
        pass

    # --- signals
    def _signalsFactory(self):
        return _MultiSignalHandling((super()._signalsFactory(), _SimChildSignalHandling(self.sim)))

    # --- the only place time advances
    def doIteration(self, delay):
        sim = self.sim
        sim.iterations += 1
        if sim.iterations > sim.iteration_cap:
            sim.hang = "iteration cap exceeded"
            raise SimHang(sim.hang)
        if self.threadCallQueue:
            return   # the waker would have woken us
        # the outside world exists only while the reactor is started: nothing is delivered
        # inside iterate() calls made after it has crashed (Spinner._clean)
        te = sim.next_event_time() if self._started else None
        if delay is None and te is None and not self._started:
            return
        if delay is None:
            if te is None:
                sim.hang = "doIteration(None) with nothing pending: the reactor would sleep forever"
                raise SimHang(sim.hang)
            sim.now = max(sim.now, te)
            _, _, kind = sim.events.pop(0)
            sim.fire(kind)
            return
        target = sim.now + (delay or 0)
        if te is not None and te <= target:
            sim.now = max(sim.now, te)
            _, _, kind = sim.events.pop(0)
            sim.fire(kind)
        else:
            sim.now = target

    # --- fd sets
    def addReader(self, reader):
        self._readers.add(reader)

    def addWriter(self, writer):
        self._writers.add(writer)

    def removeReader(self, reader):
        self._readers.discard(reader)

    def removeWriter(self, writer):
        self._writers.discard(writer)

    def removeAll(self):
        out = [s for s in sorted(self._readers | self._writers, key=repr) if s not in self._internalReaders]
        self._readers = {s for s in self._readers if s in self._internalReaders}
        self._writers = set()
        return out

    def getReaders(self):
        return list(self._readers)

    def getWriters(self):
        return list(self._writers)


GRID = (0, 1, 2, 3, 5)
