"""Baton-passing thread simulator.

Real OS threads, but the choice of who runs is never real: exactly one SimThread holds
the baton at any time, every other one is parked on its private Event.  The code under
test reaches the scheduler at yield points: every operation on SimSemaphore / SimQueue /
SimThread, every call reaching a recording target (through World.pre_hook/post_hook) and,
optionally, every source line of chosen files (sys.settrace).  At a yield point the
scheduler computes the enabled set, picks the next thread according to the run's policy
(drawing from the tape's ``schedule`` stream), hands the baton over and parks the caller.

Deadlock = the enabled set is empty while some thread is not DONE.  The detector records
the wait-for picture and switches to abort mode, in which every primitive raises
SimAbort (a BaseException) or returns at once, so the run unwinds and the process stays
usable.  A step cap bounds livelock.
"""

import sys
import threading as _real_threading
import types

REAL_WAIT_S = 60.0   # a parked thread that is not resumed within this is a harness bug


class SimAbort(BaseException):
    """Raised inside simulated threads once the run has been aborted."""


class HarnessStuck(BaseException):
    pass


NEW, READY, BLOCKED, DONE = "NEW", "READY", "BLOCKED", "DONE"


class _T:
    __slots__ = ("name", "state", "baton", "pred", "waiting_on", "prio", "os_thread", "exc",
                 "target", "args", "kwargs", "steps", "draining")

    def __init__(self, name):
        self.name = name
        self.state = NEW
        self.baton = _real_threading.Event()
        self.pred = None
        self.waiting_on = None
        self.prio = 0
        self.os_thread = None
        self.exc = None
        self.steps = 0
        self.draining = False


class Scheduler:
    def __init__(self, tape, clock=None, policy="random", step_cap=20000, pct_points=(),
                 trace_files=None, stream="schedule"):
        self.tape = tape
        self.clock = clock
        self.policy = policy
        self.step_cap = step_cap
        self.stream = stream
        self.threads = []
        self.current = None
        self.step = 0
        self.aborting = False
        self.problem = None          # ("deadlock"|"no-progress", description)
        self.decisions = []          # names picked at points where >1 thread was enabled
        self.contended = 0           # yield points with >1 enabled thread
        self.switches = 0
        self.pct_points = sorted(pct_points)
        self._pct_next = 0
        self.trace_files = trace_files
        self.kinds = {}
        self.interrupts = {}         # (primitive, k) -> exception class to raise in that call
        self.prim_calls = {}
        self.fired_interrupts = []
        self._low = 0
        self._lock_for_abort = _real_threading.Lock()

    # ----------------------------------------------------------------- thread table
    def _new_thread(self, name):
        t = _T(name)
        if self.policy == "pct":
            t.prio = 1000 + self.tape.draw(self.stream, 1000, "prio:" + name)
        self.threads.append(t)
        return t

    def me(self):
        return self.current

    def current_name(self):
        c = self.current
        return c.name if c is not None else "main"

    # ----------------------------------------------------------------- choosing
    def _enabled(self):
        out = []
        for t in self.threads:
            if t.state == READY:
                out.append(t)
            elif t.state == BLOCKED and t.pred is not None and t.pred():
                out.append(t)
        return out

    def _pick(self, enabled, cur):
        if len(enabled) == 1:
            return enabled[0]
        self.contended += 1
        pol = self.policy
        if pol == "pct":
            pts = self.pct_points
            if self._pct_next < len(pts) and self.step >= pts[self._pct_next] and cur is not None:
                self._pct_next += 1
                self._low -= 1
                cur.prio = self._low
            best = enabled[0]
            for t in enabled[1:]:
                if t.prio > best.prio:
                    best = t
            nxt = best
        elif pol == "sticky":
            if cur in enabled and self.tape.draw(self.stream, 8, "stay?") != 7:
                nxt = cur
            else:
                nxt = enabled[self.tape.draw(self.stream, len(enabled), "pick")]
        else:
            nxt = enabled[self.tape.draw(self.stream, len(enabled), "pick")]
        self.decisions.append(nxt.name)
        return nxt

    # ----------------------------------------------------------------- core
    def _handoff(self, cur, nxt):
        """Give the baton to nxt and park cur (unless they are the same)."""
        if nxt is cur:
            return
        self.switches += 1
        self.current = nxt
        if nxt.state == BLOCKED:
            nxt.state = READY
            nxt.pred = None
            nxt.waiting_on = None
        cur.baton.clear()
        nxt.baton.set()
        self._park(cur)

    def _park(self, t):
        if not t.baton.wait(REAL_WAIT_S):
            self.problem = self.problem or ("harness-stuck", f"{t.name} parked for {REAL_WAIT_S}s")
            self._abort()
            raise HarnessStuck(t.name)
        if self.aborting:
            raise SimAbort()

    def _tick(self, kind):
        self.step += 1
        if self.clock is not None:
            self.clock.tick()
        self.kinds[kind] = self.kinds.get(kind, 0) + 1
        if self.step > self.step_cap and not self.aborting:
            self.problem = ("no-progress", f"step cap {self.step_cap} exceeded; " + self._picture())
            self._abort()
            raise SimAbort()

    def yield_point(self, kind="yield"):
        if self.aborting:
            if _real_threading.current_thread() is not getattr(self, "_main_os", None):
                raise SimAbort()
            return
        cur = self.current
        if cur is None or cur.os_thread is not _real_threading.current_thread():
            return   # called from outside the simulation (e.g. set-up code)
        self._tick(kind)
        cur.steps += 1
        enabled = self._enabled()
        nxt = self._pick(enabled, cur)
        self._handoff(cur, nxt)

    def block_until(self, pred, waiting_on, kind="block"):
        """Park the current thread until pred() holds.  Returns once it does."""
        if self.aborting:
            raise SimAbort()
        cur = self.current
        self._tick(kind)
        cur.steps += 1
        if pred():
            # not blocked: an ordinary yield point
            enabled = self._enabled()
            nxt = self._pick(enabled, cur)
            self._handoff(cur, nxt)
            # someone else may have consumed the resource meanwhile
            while not pred():
                self._block(cur, pred, waiting_on)
            return
        self._block(cur, pred, waiting_on)
        while not pred():
            self._block(cur, pred, waiting_on)

    def _block(self, cur, pred, waiting_on):
        cur.state = BLOCKED
        cur.pred = pred
        cur.waiting_on = waiting_on
        enabled = self._enabled()
        if not enabled:
            self.problem = ("deadlock", self._picture())
            self._abort()
            raise SimAbort()
        nxt = self._pick(enabled, cur)
        if nxt is cur:
            cur.state = READY
            cur.pred = None
            cur.waiting_on = None
            return
        self.switches += 1
        self.current = nxt
        if nxt.state == BLOCKED:
            nxt.state = READY
            nxt.pred = None
            nxt.waiting_on = None
        cur.baton.clear()
        nxt.baton.set()
        self._park(cur)

    def _picture(self):
        parts = []
        for t in self.threads:
            parts.append(f"{t.name}:{t.state}" + (f"(waits {t.waiting_on})" if t.waiting_on else ""))
        return " ".join(parts)

    def _abort(self):
        with self._lock_for_abort:
            if self.aborting:
                return
            self.aborting = True
            self.frozen_step = self.step
        for t in self.threads:
            t.baton.set()

    # ----------------------------------------------------------------- thread lifecycle
    def _thread_done(self, t):
        t.state = DONE
        if self.aborting:
            return
        enabled = self._enabled()
        if not enabled:
            if any(x.state != DONE for x in self.threads):
                self.problem = ("deadlock", "after " + t.name + " finished: " + self._picture())
                self._abort()
            return
        self._tick("thread-exit")
        nxt = self._pick(enabled, None)
        self.current = nxt
        if nxt.state == BLOCKED:
            nxt.state = READY
            nxt.pred = None
            nxt.waiting_on = None
        nxt.baton.set()

    def _bootstrap(self, t):
        try:
            if not t.baton.wait(REAL_WAIT_S):
                return
            if self.aborting:
                return
            if self.trace_files:
                sys.settrace(self._tracer)
            try:
                t.target(*t.args, **t.kwargs)
            except SimAbort:
                pass
            except BaseException as e:   # an uncaught exception kills only that thread
                t.exc = e
            finally:
                sys.settrace(None)
        finally:
            try:
                self._thread_done(t)
            except BaseException:
                pass

    def _tracer(self, frame, event, arg):
        if frame.f_code.co_filename in self.trace_files:
            return self._line_tracer
        return None

    def _line_tracer(self, frame, event, arg):
        if event == "line" and not self.aborting:
            self.yield_point("line")
        return self._line_tracer

    # ----------------------------------------------------------------- running
    def run(self, main_fn):
        """Run main_fn as simulated thread T0 on the calling OS thread; afterwards drain
        the remaining threads.  Returns (result, exception) of main_fn."""
        t0 = self._new_thread("T0")
        t0.state = READY
        t0.os_thread = _real_threading.current_thread()
        self._main_os = t0.os_thread
        self.current = t0
        t0.baton.set()
        result = exc = None
        if self.trace_files:
            sys.settrace(self._tracer)
        try:
            try:
                result = main_fn()
            except SimAbort:
                pass
            except BaseException as e:
                exc = e
        finally:
            sys.settrace(None)
        self.alive_at_return = [t.name for t in self.threads if t is not t0 and t.state not in (DONE, NEW)]
        self.unstarted_at_return = [t.name for t in self.threads if t.state == NEW]
        # drain: let everybody else finish
        if not self.aborting:
            t0.draining = True
            try:
                self.block_until(lambda: all(x.state == DONE or x.state == NEW for x in self.threads if x is not t0),
                                 "drain", kind="drain")
            except SimAbort:
                pass
        t0.state = DONE
        for t in self.threads:
            if t.state == NEW:
                t.baton.set()
        if self.aborting:
            for t in self.threads:
                t.baton.set()
        for t in self.threads:
            if t.os_thread is not None and t.os_thread is not self._main_os:
                t.os_thread.join(REAL_WAIT_S)
                if t.os_thread.is_alive():
                    self.problem = self.problem or ("harness-stuck", f"{t.name} did not terminate")
        return result, exc

    # ----------------------------------------------------------------- interrupts
    def _maybe_interrupt(self, prim):
        n = self.prim_calls.get(prim, 0) + 1
        self.prim_calls[prim] = n
        exc = self.interrupts.get((prim, n))
        if exc is not None and self.current is not None and self.current.name == "T0":
            self.fired_interrupts.append((prim, n))
            raise exc(f"injected into {prim}#{n}")


class SimThread:
    """Replacement for threading.Thread (the subset testtools uses)."""

    _count = 0

    def __init__(self, sched, target=None, args=(), kwargs=None, name=None, daemon=None):
        self._s = sched
        n = len(sched.threads)
        self._t = sched._new_thread(name or f"W{n}")
        self._t.target = target
        self._t.args = args
        self._t.kwargs = kwargs or {}
        self.name = self._t.name
        self.daemon = daemon

    def start(self):
        s, t = self._s, self._t
        if t.state != NEW:
            raise RuntimeError("threads can only be started once")
        t.os_thread = _real_threading.Thread(target=s._bootstrap, args=(t,), daemon=True)
        t.os_thread.start()
        t.state = READY
        s.yield_point("thread-start")
        # an interrupt may arrive while the caller is still inside start()
        s._maybe_interrupt("start")

    def join(self, timeout=None):
        s, t = self._s, self._t
        if s.aborting:
            raise SimAbort()
        s._maybe_interrupt("join")
        s.block_until(lambda: t.state == DONE, f"join({t.name})", kind="join")

    def is_alive(self):
        return self._t.state in (READY, BLOCKED)


class SimSemaphore:
    def __init__(self, sched, value=1, name="sem"):
        self._s = sched
        self.value = value
        self.name = name
        self.holder = None
        self.acquires = 0
        self.releases = 0
        self.waits = 0
        self.failed_tries = 0
        self.max_value = value

    def acquire(self, blocking=True, timeout=None):
        s = self._s
        if s.aborting:
            raise SimAbort()
        if not blocking:
            # try-acquire: a scheduling point, then take it only if it is free right now
            s.yield_point("sem-try-acquire")
            if self.value <= 0:
                self.failed_tries += 1
                return False
            self.value -= 1
            self.acquires += 1
            self.holder = s.current_name()
            return True
        if self.value <= 0:
            self.waits += 1
        s.block_until(lambda: self.value > 0, f"{self.name}(held by {self.holder})", kind="sem-acquire")
        self.value -= 1
        self.acquires += 1
        self.holder = s.current_name()
        return True

    def release(self, n=1):
        s = self._s
        self.value += n
        self.max_value = max(self.max_value, self.value)
        self.releases += 1
        self.holder = None
        if s.aborting:
            return
        s.yield_point("sem-release")

    __enter__ = acquire

    def __exit__(self, *a):
        self.release()


class SimQueue:
    """Replacement for queue.Queue (unbounded)."""

    def __init__(self, sched, maxsize=0, name="queue"):
        self._s = sched
        self.items = []
        self.name = name
        self.put_log = []    # (step, thread, item)
        self.get_log = []

    def put(self, item, block=True, timeout=None):
        s = self._s
        self.items.append(item)
        self.put_log.append((s.step, s.current_name(), dict(item) if isinstance(item, dict) else item))
        if s.aborting:
            return
        s.yield_point("queue-put")

    def get(self, block=True, timeout=None):
        s = self._s
        if s.aborting:
            raise SimAbort()
        s._maybe_interrupt("get")
        s.block_until(lambda: bool(self.items), f"{self.name}.get", kind="queue-get")
        item = self.items.pop(0)
        self.get_log.append((s.step, s.current_name(), item))
        return item

    def qsize(self):
        return len(self.items)

    def empty(self):
        return not self.items


def threading_shim(sched, sems):
    """A stand-in for the ``threading`` module as seen by testtools.testsuite."""

    def Thread(group=None, target=None, name=None, args=(), kwargs=None, daemon=None):
        return SimThread(sched, target=target, args=args, kwargs=kwargs, name=name, daemon=daemon)

    def Semaphore(value=1):
        sem = SimSemaphore(sched, value, name=f"sem{len(sems)}")
        sems.append(sem)
        return sem

    def Lock():
        # (not added to `sems`: the checks read that list as "the semaphore handed to the forwarders")
        return SimSemaphore(sched, 1, name="lock")

    def Event():
        return SimEvent(sched)

    ns = _Shim()
    ns.Thread = Thread
    ns.Semaphore = Semaphore
    ns.BoundedSemaphore = Semaphore
    ns.Lock = Lock
    ns.Event = Event
    ns.current_thread = _real_threading.current_thread
    return ns


class HarnessLimit(RuntimeError):
    """The code under test asked the simulator for something it does not simulate (raised from a
    /verif frame on purpose: this is a limit of the harness, exit 2, never a verdict on the code)."""


class _Shim(types.SimpleNamespace):
    def __getattr__(self, name):
        raise HarnessLimit(f"the simulated threading module has no {name!r}: the tree under test uses a primitive the "
                           f"simulator does not model")


class SimEvent:
    def __init__(self, sched):
        self._s = sched
        self._flag = False

    def is_set(self):
        return self._flag

    def set(self):
        self._flag = True
        if not self._s.aborting:
            self._s.yield_point("event-set")

    def clear(self):
        self._flag = False

    def wait(self, timeout=None):
        if self._s.aborting:
            raise SimAbort()
        self._s.block_until(lambda: self._flag, "event", kind="event-wait")
        return True


def draw_policy(tape, est_steps, stream="config"):
    """Swarm: pick a scheduling policy for this run."""
    pol = tape.weighted(stream, [(3, "random"), (3, "pct"), (2, "sticky")], "policy")
    points = ()
    if pol == "pct":
        d = tape.draw(stream, 4, "pct-depth")
        points = tuple(tape.draw(stream, max(2, est_steps), "pct-point") for _ in range(d))
    return pol, points
