"""Recording result targets, written here (not imported from testtools.testresult.doubles)
so that they are outside the mutation surface.

Every call is logged as an Event(seq, thread, target, method, test_id, data) where
``data`` is a snapshot taken *at the call* (details are read -- bytes materialised -- at
that instant, which is what "bytes delivered at reporting time" means).

A target consults its fault plan ("raise X on the k-th call of method m") and the
world's yield hooks before/after it logs, so that a thread scheduler can pre-empt at
target calls.
"""

OUTCOMES = (
    "addSuccess", "addFailure", "addError", "addSkip", "addExpectedFailure",
    "addUnexpectedSuccess",
)


class TargetFault(Exception):
    """Raised by a target when its fault plan says so."""


class Event:
    __slots__ = ("seq", "thread", "target", "method", "test_id", "data", "call")

    def __init__(self, seq, thread, target, method, test_id, data, call=None):
        self.seq = seq
        self.call = call
        self.thread = thread
        self.target = target
        self.method = method
        self.test_id = test_id
        self.data = data

    def brief(self):
        return (self.seq, self.thread, self.target, self.method, self.test_id)

    def __repr__(self):
        return f"Event{self.brief()!r}"


class World:
    """Shared sequence counter + logs + hooks for one simulated run."""

    def __init__(self):
        self.seq = 0
        self.events = []       # target events
        self.exec_log = []     # user-stage execution log entries (seq, ...)
        self.pre_hook = None   # called(target, method) before logging
        self.post_hook = None  # called(target, method) after logging
        self.thread_of = lambda: "main"
        self.call_of = lambda: None   # id of the reporter-side call that is in progress
        self.fault_fired = []
        self.fault_log = []      # (seq, target, method, test id) of every injected fault, in world order

    def tick(self):
        self.seq += 1
        return self.seq

    def xlog(self, *entry):
        self.exec_log.append((self.tick(),) + entry)


def test_id_of(test):
    try:
        return test.id()
    except Exception:
        return repr(test)


def snap_details(details):
    if details is None:
        return None
    out = {}
    for name, content in details.items():
        try:
            chunks = list(content.iter_bytes())
            err = None
        except Exception as e:  # a detail whose source is broken
            chunks, err = [], repr(e)
        ct = content.content_type
        out[name] = {
            "type": (ct.type, ct.subtype, tuple(sorted((ct.parameters or {}).items()))),
            "bytes": b"".join(chunks),
            "nchunks": len(chunks),
            "err": err,
        }
    return out


def snap_err(err):
    if err is None:
        return None
    try:
        # exc_info tuple
        etype, evalue, tb = err
        return {"type": getattr(etype, "__name__", repr(etype)), "text": str(evalue)}
    except Exception:
        # a twisted Failure or something else
        return {"type": type(err).__name__, "text": str(err)}


class FaultPlan:
    """k-th call (1-based) of method m on the target raises."""

    def __init__(self, plan=None):
        self.plan = dict(plan or {})   # method -> set of k
        self.counts = {}
        self.fired = []

    def check(self, method):
        n = self.counts.get(method, 0) + 1
        self.counts[method] = n
        ks = self.plan.get(method)
        if ks and n in ks:
            self.fired.append((method, n))
            return True
        return False


class _Base:
    flavour = "base"

    def __init__(self, world, name="T", faults=None):
        self._w = world
        self._name = name
        self._faults = faults

    def _rec(self, method, test=None, data=None):
        w = self._w
        if w.pre_hook is not None:
            w.pre_hook(self, method)
        if self._faults is not None and self._faults.check(method):
            w.fault_fired.append((self._name, method))
            w.fault_log.append((w.tick(), self._name, method, None if test is None else test_id_of(test)))
            raise TargetFault(f"{self._name}.{method} fault")
        ev = Event(
            w.tick(), w.thread_of(), self._name, method,
            None if test is None else test_id_of(test), data, w.call_of(),
        )
        w.events.append(ev)
        self._on_event(ev)
        if w.post_hook is not None:
            w.post_hook(self, method)
        return ev

    def _on_event(self, ev):
        pass

    _falsy = False

    def __bool__(self):
        return not self._falsy

    # a collector with value equality: two distinct (e.g. still empty) ones compare equal - they are two objects all the same
    _equal_all = False

    def __eq__(self, other):
        if self is other:
            return True
        return bool(self._equal_all and type(other) is type(self) and other._equal_all)

    def __hash__(self):
        return 0 if self._equal_all else object.__hash__(self)


class T26(_Base):
    """2.6-style: no skip/xfail/uxsuccess, no details, no startTestRun."""

    flavour = "2.6"

    def __init__(self, world, name="T26", faults=None):
        super().__init__(world, name, faults)
        self.shouldStop = False
        self.testsRun = 0
        self._ok = True

    def startTest(self, test):
        self.testsRun += 1
        self._rec("startTest", test)

    def stopTest(self, test):
        self._rec("stopTest", test)

    def addSuccess(self, test):
        self._rec("addSuccess", test, {})

    def addError(self, test, err):
        self._ok = False
        self._rec("addError", test, {"err": snap_err(err)})

    def addFailure(self, test, err):
        self._ok = False
        self._rec("addFailure", test, {"err": snap_err(err)})

    def stop(self):
        self.shouldStop = True
        self._rec("stop")

    def wasSuccessful(self):
        return self._ok


class T27(T26):
    flavour = "2.7"

    def __init__(self, world, name="T27", faults=None):
        super().__init__(world, name, faults)
        self.failfast = False

    def addError(self, test, err):
        super().addError(test, err)
        if self.failfast:
            self.stop()

    def addFailure(self, test, err):
        super().addFailure(test, err)
        if self.failfast:
            self.stop()

    def addSkip(self, test, reason):
        self._rec("addSkip", test, {"reason": reason})

    def addExpectedFailure(self, test, err):
        self._rec("addExpectedFailure", test, {"err": snap_err(err)})

    def addUnexpectedSuccess(self, test):
        self._ok = False
        self._rec("addUnexpectedSuccess", test, {})
        if self.failfast:
            self.stop()

    def startTestRun(self):
        self._rec("startTestRun")

    def stopTestRun(self):
        self._rec("stopTestRun")


class TExt(T27):
    """Extended: details=, tags, time, progress, done."""

    flavour = "extended"

    def __init__(self, world, name="TExt", faults=None):
        super().__init__(world, name, faults)
        self._g = set()
        self._l = None
        self._now = None

    @property
    def current_tags(self):
        return set(self._g if self._l is None else self._l)

    def _out(self, method, test, err, details, reason=None):
        data = {
            "err": snap_err(err), "details": snap_details(details), "reason": reason,
            "tags": frozenset(self.current_tags), "time": self._now,
        }
        self._rec(method, test, data)

    def addSuccess(self, test, details=None):
        self._out("addSuccess", test, None, details)

    def addError(self, test, err=None, details=None):
        self._ok = False
        self._out("addError", test, err, details)
        if self.failfast:
            self.stop()

    def addFailure(self, test, err=None, details=None):
        self._ok = False
        self._out("addFailure", test, err, details)
        if self.failfast:
            self.stop()

    def addSkip(self, test, reason=None, details=None):
        self._out("addSkip", test, None, details, reason)

    def addExpectedFailure(self, test, err=None, details=None):
        self._out("addExpectedFailure", test, err, details)

    def addUnexpectedSuccess(self, test, details=None):
        self._ok = False
        self._out("addUnexpectedSuccess", test, None, details)
        if self.failfast:
            self.stop()

    def startTestRun(self):
        self._g = set()
        self._l = None
        self._ok = True
        self._rec("startTestRun")

    def startTest(self, test):
        self.testsRun += 1
        self._l = set(self._g)
        self._rec("startTest", test, {"time": self._now, "tags": frozenset(self._g)})

    def stopTest(self, test):
        self._rec("stopTest", test, {"time": self._now, "tags": frozenset(self.current_tags)})
        self._l = None

    def tags(self, new_tags, gone_tags):
        new_tags, gone_tags = set(new_tags), set(gone_tags)
        cur = self._g if self._l is None else self._l
        cur |= new_tags
        cur -= gone_tags
        self._rec("tags", None, {"new": frozenset(new_tags), "gone": frozenset(gone_tags), "in_test": self._l is not None})

    def time(self, a_time):
        self._now = a_time
        self._rec("time", None, {"time": a_time})

    def progress(self, offset, whence):
        self._rec("progress", None, {"offset": offset, "whence": whence})

    def done(self):
        self._rec("done")


class TTwisted(_Base):
    """Twisted-reporter style: addError(test, error), todo arguments, done()."""

    flavour = "twisted"

    def __init__(self, world, name="TTw", faults=None):
        super().__init__(world, name, faults)
        self.testsRun = 0
        self._ok = True

    def startTest(self, test):
        self.testsRun += 1
        self._rec("startTest", test)

    def stopTest(self, test):
        self._rec("stopTest", test)

    def addSuccess(self, test):
        self._rec("addSuccess", test, {})

    def addError(self, test, error):
        self._ok = False
        self._rec("addError", test, {"err": snap_err(error)})

    def addFailure(self, test, error):
        self._ok = False
        self._rec("addFailure", test, {"err": snap_err(error)})

    def addExpectedFailure(self, test, failure, todo=None):
        self._rec("addExpectedFailure", test, {"err": snap_err(failure)})

    def addUnexpectedSuccess(self, test, todo=None):
        self._rec("addUnexpectedSuccess", test, {})

    def addSkip(self, test, reason):
        self._rec("addSkip", test, {"reason": reason})

    def wasSuccessful(self):
        return self._ok

    def done(self):
        self._rec("done")


class TStream(_Base):
    """A StreamResult sink."""

    flavour = "stream"

    def __init__(self, world, name="TS", faults=None, mutate=False):
        super().__init__(world, name, faults)
        self._mutate = mutate

    def startTestRun(self):
        self._rec("startTestRun")

    def stopTestRun(self):
        self._rec("stopTestRun")

    def status(self, test_id=None, test_status=None, test_tags=None, runnable=True,
               file_name=None, file_bytes=None, eof=False, mime_type=None,
               route_code=None, timestamp=None):
        data = {
            "test_id": test_id, "test_status": test_status,
            "test_tags": None if test_tags is None else frozenset(test_tags),
            "runnable": runnable, "file_name": file_name, "file_bytes": file_bytes,
            "eof": eof, "mime_type": mime_type, "route_code": route_code,
            "timestamp": timestamp,
        }
        w = self._w
        if w.pre_hook is not None:
            w.pre_hook(self, "status")
        if self._faults is not None and self._faults.check("status"):
            w.fault_fired.append((self._name, "status"))
            raise TargetFault(f"{self._name}.status fault")
        ev = Event(w.tick(), w.thread_of(), self._name, "status", test_id, data, w.call_of())
        w.events.append(ev)
        if self._mutate and isinstance(test_tags, set):
            # a hostile sibling: mutates what it received
            test_tags.add("MUTATED-BY-" + self._name)
        if w.post_hook is not None:
            w.post_hook(self, "status")


def make_target(flavour, world, name=None, faults=None):
    cls = {"2.6": T26, "2.7": T27, "extended": TExt, "twisted": TTwisted, "stream": TStream}[flavour]
    return cls(world, name or cls.__name__, faults)
