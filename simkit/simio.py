"""Simulated streams and files: short reads, EOF, later mutation of the source, read log.

``SimStream.read(n)`` returns a drawn prefix of what is available (1..n bytes: legal for any
raw stream), logs every call with the world's sequence number, supports both seek origins,
and its backing bytes can be changed after a Content was created from it.
``sim_open`` stands in for the ``open`` that testtools.content resolves as a module global.
"""


class SimStream:
    def __init__(self, data, tape, log, name="stream", short_reads=True, pos=0):
        self.data = bytearray(data)
        self.pos = pos
        self.tape = tape
        self.log = log          # shared list of (event, ...) entries
        self.name = name
        self.short_reads = short_reads
        self.closed = False

    def read(self, n=-1):
        avail = max(0, len(self.data) - self.pos)
        if n is None or n < 0:
            want = avail
        else:
            want = min(n, avail)
        if want > 1 and self.short_reads:
            # 0 -> full read (simplest); otherwise a short read of 1..want-1 bytes
            k = self.tape.draw("faults", want, "short-read")
            if k:
                want = k
                self.log.append(("short-read", self.name))
        chunk = bytes(self.data[self.pos:self.pos + want])
        self.pos += len(chunk)
        self.log.append(("read", self.name, n, len(chunk)))
        return chunk

    def seek(self, offset, whence=0):
        if whence == 0:
            new = offset
        elif whence == 1:
            new = self.pos + offset
        else:
            new = len(self.data) + offset
        if new < 0:
            raise OSError(22, "Invalid argument")
        self.pos = new
        self.log.append(("seek", self.name, offset, whence))
        return new

    def tell(self):
        return self.pos

    def close(self):
        self.closed = True
        self.log.append(("close", self.name))

    def __enter__(self):
        return self

    def __exit__(self, *a):
        self.close()
        return False


class SimFS:
    """path -> bytes; ``open`` logs and returns a SimStream over the bytes current at open time."""

    def __init__(self, tape, log):
        self.files = {}
        self.tape = tape
        self.log = log
        self.opens = 0

    def open(self, path, mode="r", *a, **kw):
        self.opens += 1
        self.log.append(("open", path, mode))
        if path not in self.files:
            raise FileNotFoundError(path)
        return SimStream(self.files[path], self.tape, self.log, name=path)
