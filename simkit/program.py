"""Scripted test programs: data -> real testtools.TestCase, plus the reference model.

A *program* is data (JSON-able).  For each of setUp (before/after the upcall), the
test method, tearDown (before/after the upcall) and every cleanup body there is a
list of operations.  The interpreter (``build_case``) turns the data into a real
``testtools.TestCase`` whose methods execute the ops against the real addCleanup /
addDetail / expectThat / assertThat / patch / useFixture / addOnException /
expectFailure / skipTest; each op appends itself to the world's execution log when
it runs.  ``model_run`` is an independent, tiny interpreter of the same data that
predicts the execution log, the ordered list of raised exceptions and the details
that have to reach the result.  The fault plan (which op raises what) is part of the
program: it is drawn from the ``faults`` stream.
"""

import sys
import unittest

import fixtures as _fixtures

import testtools
from testtools import content as _content
from testtools.content_type import ContentType
from testtools.runtest import MultipleExceptions
from testtools.assertions import assert_that as _assert_that
from testtools.matchers._higherorder import MismatchesAll as _MismatchesAll

STAGES = ("setUp_pre", "setUp_post", "test", "tearDown_pre", "tearDown_post")

# kinds a scripted op can raise
EXC_KINDS = ("fail", "error", "skip", "xfail", "uxsuccess", "multi", "kbi", "sysexit",
             "subfail", "subskip", "suberror", "user", "abort", "genexit")
BASE_KINDS = ("kbi", "sysexit", "abort", "genexit")


class SubInterrupt(KeyboardInterrupt):
    """Subclasses of the built-in signal exceptions behave as those do."""


class SubExit(SystemExit):
    pass


class Abort(BaseException):
    """A project-defined exception that does not derive from Exception."""

MULTI_PART_KINDS = ("fail", "error", "skip", "subfail", "suberror", "kbi")

DETAIL_NAMES = ("d0", "d1", "traceback", "traceback-1", "Failed expectation",
                "Failed expectation-1", "dét", "fx0")

TEXT_CT = ContentType("text", "plain", {"charset": "utf8"})
BIN_CT = ContentType("application", "octet-stream")


class SubFail(AssertionError):
    pass


class SubSkip(unittest.SkipTest):
    pass


class SubError(RuntimeError):
    """An error of a project-defined class; as some aggregate exceptions are when empty, it is falsy."""

    def __len__(self):
        return 0


class User0(Exception):
    pass


class User1(AssertionError):
    pass


class User2(unittest.SkipTest):
    pass


USER_CLASSES = {"User0": User0, "User1": User1, "User2": User2}


class Cfg:
    """Generation knobs; every check picks its own focus."""

    def __init__(self, **kw):
        self.max_ops = 3
        self.raise_num, self.raise_den = 1, 5
        self.kinds = EXC_KINDS
        self.details = True
        self.fixtures = True
        self.patches = True
        self.matchers = True
        self.handlers = True
        self.onexc = True
        self.decorators = True
        self.force = True
        self.setcells = True
        self.max_cleanups = 4
        self.assert_fn = True
        self.skip_decorators = True
        self.odd_skip_reasons = True
        self.stray_bytes = True
        self.exotic_patch_targets = True
        self.bulk_cleanups = True
        self.force_before_run = True
        self.reraise = True
        self.volatile_mismatch_details = True
        self.__dict__.update(kw)


# ----------------------------------------------------------------------------- generator
class _Gen:
    def __init__(self, tape, cfg):
        self.t = tape
        self.cfg = cfg
        self.next_op = 0
        self.next_marker = 0
        self.next_payload = 0
        self.cleanups = {}
        self.fixtures = {}
        self.cells = {}
        self.onexc = 0
        self.simple_raises = []
        self.bulk = 0
        self.nobjs = 3

    def marker(self):
        self.next_marker += 1
        return "MK%d." % self.next_marker

    def payload(self, allow_empty=True, binary=None):
        """Return (shape, [chunks]); chunk bytes are unique per payload."""
        self.next_payload += 1
        tag = ("PL%d|" % self.next_payload).encode()
        t = self.t
        if binary is None:
            binary = t.chance("payload", 1, 3, "binary?")
        variant = t.draw("payload", 6 if allow_empty else 4, "payload-shape")
        body = tag + (b"\xff\xfe\x80" if binary else "café☃".encode("utf8"))
        if not binary and self.cfg.stray_bytes and t.chance("payload", 1, 10, "text-with-stray-bytes"):
            body = tag + b"caf\xff"          # a log with a stray byte, attached as utf8 text
        if variant == 0:
            chunks = [body]
        elif variant == 1:
            cut = 1 + t.draw("payload", len(body) - 1, "cut")
            chunks = [body[:cut], body[cut:]]
        elif variant == 2:
            cut = 1 + t.draw("payload", len(body) - 1, "cut")
            chunks = [b"", body[:cut], b"", body[cut:], b""]
        elif variant == 3:
            chunks = [bytes([b]) for b in body[:6]] + [body[6:]]
        elif variant == 4:
            chunks = []
        else:
            chunks = [b""]
        return ("bin" if binary else "text", chunks)

    def op(self, body):
        self.next_op += 1
        return {"id": self.next_op, "op": body}

    def raise_op(self):
        t, cfg = self.t, self.cfg
        if cfg.reraise and self.simple_raises and t.chance("faults", 1, 8, "raise-same-object-again"):
            k0, m0 = self.simple_raises[t.draw("faults", len(self.simple_raises), "which")]
            return self.op(["raise", k0, m0, "again"])
        kind = t.choice("faults", cfg.kinds, "raise-kind")
        extra = None
        if kind == "multi":
            extra = self.multi_parts(0)
        elif kind == "skip" and cfg.odd_skip_reasons and t.chance("faults", 1, 4, "odd-skip-reason"):
            extra = t.choice("faults", ("int", "none", "obj"), "skip-reason-type")
        elif kind == "user":
            extra = t.choice("faults", sorted(USER_CLASSES), "user-class")
        elif kind == "xfail":
            extra = self.marker()   # marker of the assertion behind the expected failure
        marker = self.marker()
        if kind in ("fail", "error", "subfail", "suberror") and extra is None:
            self.simple_raises.append((kind, marker))
        return self.op(["raise", kind, marker, extra])

    def multi_parts(self, depth):
        """Parts of a MultipleExceptions: [kind, marker] or ["multi", [parts]] (nested); may be empty."""
        t = self.t
        n = t.weighted("faults", [(3, 1), (3, 2), (2, 3), (1, 0)], "multi-n")
        parts = []
        for _ in range(n):
            if depth == 0 and t.chance("faults", 1, 5, "nested-multi"):
                parts.append(["multi", self.multi_parts(1)])
            else:
                parts.append([t.choice("faults", MULTI_PART_KINDS, "multi-part"), self.marker()])
        return parts

    def mismatch(self):
        t = self.t
        if not t.chance("program", 1, 2, "mismatch?"):
            return None
        nd = t.draw("program", 3, "mm-details")
        det = []
        for _ in range(nd):
            name = t.choice("program", DETAIL_NAMES, "mm-detail-name")
            if any(name == n for n, _ in det):
                continue   # one dict: names within a single mismatch are distinct
            if self.cfg.volatile_mismatch_details and self.cfg.setcells and t.chance("program", 1, 4, "volatile-mm-detail"):
                # a lazily evaluated detail over mutable state (a live log buffer, say)
                cell = "cell%d" % len(self.cells)
                self.cells[cell] = self.payload(allow_empty=False)
                det.append([name, ["cellref", cell]])
            else:
                det.append([name, self.payload(allow_empty=False)])
        desc = self.marker() + ("☃" if t.chance("payload", 1, 3) else "")
        # a stock mismatch without children (what AnyMatch(m).match([]) or MatchesAny().match(x) return)
        stock_empty = (not det) and t.chance("program", 1, 3, "stock-mismatch-without-children")
        return {"desc": desc, "details": det, "stock_empty": stock_empty}

    def benign_op(self, depth):
        t, cfg = self.t, self.cfg
        menu = [(3, "nop")]
        if len(self.cleanups) < cfg.max_cleanups and depth < 3:
            menu.append((5, "cleanup"))
        if cfg.details:
            menu.append((4, "detail"))
            if cfg.setcells and self.cells:
                menu.append((2, "setcell"))
        if cfg.matchers:
            menu.append((3, "expect"))
            menu.append((2, "assert"))
            if cfg.assert_fn:
                menu.append((1, "assert_fn"))
        if cfg.patches:
            menu.append((3, "patch"))
        if cfg.fixtures and len(self.fixtures) < 2 and depth < 2:
            menu.append((2, "fixture"))
        if cfg.onexc and self.onexc < 2:
            menu.append((1, "onexc"))
        if cfg.force:
            menu.append((1, "force_fail"))
        what = t.weighted("program", menu, "op")
        if cfg.bulk_cleanups and not self.bulk and depth == 0 and t.draw("program", 150, "bulk-cleanups?") == 149:
            # a boundary count: very many pending cleanups
            self.bulk = t.choice("program", (60, 450, 1100), "bulk-count")
            return self.op(["bulk_cleanups", self.bulk])
        if what == "nop":
            return self.op(["nop"])
        if what == "cleanup":
            cid = "c%d" % len(self.cleanups)
            self.cleanups[cid] = None   # reserve
            self.cleanups[cid] = self.ops(depth + 1, small=True)
            return self.op(["cleanup", cid])
        if what == "detail":
            name = t.choice("program", DETAIL_NAMES, "detail-name")
            cell = "cell%d" % len(self.cells)
            self.cells[cell] = self.payload()
            return self.op(["detail", name, cell])
        if what == "setcell":
            cell = t.choice("program", sorted(self.cells), "cell")
            shape = self.cells[cell][0]
            return self.op(["setcell", cell, self.payload(binary=(shape == "bin"))[1]])
        if what == "expect":
            mm = self.mismatch()
            if mm is not None and not mm["stock_empty"] and t.chance("program", 1, 12, "mismatch-whose-describe-raises"):
                # user matcher code that fails while the failed expectation is being recorded: an error raised
                # by the stage, from inside expectThat
                mm["describe_raises"] = True
            return self.op(["expect", mm])
        if what == "assert":
            return self.op(["assert", self.mismatch()])
        if what == "assert_fn":
            return self.op(["assert_fn", self.mismatch()])
        if what == "patch":
            return self.op(["patch", t.draw("program", self.nobjs, "obj"),
                            t.choice("program", ("a", "b", "c") if cfg.exotic_patch_targets else ("a", "b"), "attr"), "V%d" % self.next_op])
        if what == "fixture":
            fid = "f%d" % len(self.fixtures)
            nd = t.draw("program", 3, "fx-details")
            details = []
            for _ in range(nd):
                name = t.choice("program", DETAIL_NAMES, "fx-detail-name")
                if any(name == n for n, _ in details):
                    continue
                details.append([name, self.payload(allow_empty=False)])
            nc = t.draw("program", 3, "fx-cleanups")
            cleanups = []
            for _ in range(nc):
                r = None
                if t.chance("faults", 1, 4, "fx-cleanup-raises"):
                    r = [t.choice("faults", ("error", "fail", "suberror"), "fx-cleanup-kind"), self.marker()]
                cleanups.append(r)
            sr = None
            if t.chance("faults", 1, 4, "fx-setup-raises"):
                sr = [t.choice("faults", ("error", "fail", "skip"), "fx-setup-kind"), self.marker()]
            self.fixtures[fid] = {"details": details, "cleanups": cleanups, "setup_raise": sr}
            return self.op(["fixture", fid])
        if what == "onexc":
            self.onexc += 1
            return self.op(["onexc", "h%d" % self.onexc])
        if what == "force_fail":
            return self.op(["force_fail"])
        raise AssertionError(what)

    def ops(self, depth=0, small=False):
        t, cfg = self.t, self.cfg
        n = t.draw("program", (2 if small else cfg.max_ops) + 1, "n-ops")
        out = []
        for _ in range(n):
            out.append(self.benign_op(depth))
        # the fault plan: at most one raising op per op list, at a drawn position
        if t.chance("faults", cfg.raise_num, cfg.raise_den, "raises?"):
            pos = t.draw("faults", len(out) + 1, "raise-pos")
            out.insert(pos, self.raise_op())
        return out


def gen_program(tape, cfg):
    g = _Gen(tape, cfg)
    t = tape
    prog = {"class_skip": None, "method_skip": None, "xfail_decorator": False, "handlers": []}
    if cfg.decorators:
        d = t.draw("program", 16, "decorator")
        if d in (1, 2, 3, 4) and not cfg.skip_decorators:
            d = 0
        empty = d in (1, 2, 3, 4) and t.chance("program", 1, 5, "empty-skip-reason")
        odd = d in (1, 2, 3, 4) and not empty and cfg.odd_skip_reasons and t.chance("program", 1, 5, "decorator-reason-not-a-str")
        if d == 1:
            prog["class_skip"] = "" if empty else "class-skip-" + g.marker()
        elif d == 2:
            prog["method_skip"] = ["skip", "" if empty else "method-skip-" + g.marker()]
        elif d == 3:
            prog["method_skip"] = ["skipIf", "" if empty else "method-skipIf-" + g.marker()]
        elif d == 4:
            prog["method_skip"] = ["skipUnless", "" if empty else "method-skipUnless-" + g.marker()]
        elif d in (5, 6):
            prog["xfail_decorator"] = True
        if odd:
            # a reason that is not a str but can be cast to one (an int here)
            n = 1000 + t.draw("program", 9, "reason-int")
            if prog["class_skip"] is not None:
                prog["class_skip"] = n
            else:
                prog["method_skip"][1] = n
    if cfg.handlers and "user" in cfg.kinds:
        nh = t.draw("program", 3, "n-handlers")
        names = sorted(USER_CLASSES)
        for i in range(nh):
            prog["handlers"].append({
                "cls": names[t.draw("program", len(names), "handler-class")],
                "pos": t.draw("program", 5, "handler-pos"),
                "reports": t.choice("program", ("failure", "error", "skip"), "handler-reports"),
            })
    # the handlers are inserted before run() - or by the test itself, first thing in its (first) setUp
    prog["handlers_in_setup"] = bool(prog["handlers"]) and t.chance("program", 1, 4, "handlers-inserted-in-setUp")
    prog["force_before_run"] = None
    if cfg.force and cfg.force_before_run and t.chance("program", 1, 20, "force-failure-set-before-run"):
        prog["force_before_run"] = t.choice("program", ("instance", "class"), "where")
    prog["stages"] = {s: g.ops() for s in STAGES}
    prog["cleanups"] = g.cleanups
    prog["fixtures"] = g.fixtures
    prog["cells"] = {k: {"shape": v[0], "chunks": v[1]} for k, v in g.cells.items()}
    prog["nobjs"] = g.nobjs
    # a result object that happens to be falsy (a sized container of its events, still empty)
    prog["falsy_result"] = t.chance("program", 1, 12, "result-object-is-falsy")
    # a second test object of the same class exists (configured, never run)
    prog["returns"] = t.weighted("program", [(10, None), (1, "zero"), (1, "any")], "stage-return-value")
    prog["sibling"] = t.weighted("program", [(8, None), (1, "before"), (1, "after")], "sibling-test-object")
    return prog


def jsonable(x):
    """Program -> JSON-friendly (bytes become latin-1 strings tagged b'..')."""
    if isinstance(x, bytes):
        return "b:" + x.decode("latin-1")
    if isinstance(x, dict):
        return {str(k): jsonable(v) for k, v in x.items()}
    if isinstance(x, (list, tuple)):
        return [jsonable(v) for v in x]
    if isinstance(x, (set, frozenset)):
        return sorted(jsonable(v) for v in x)
    if isinstance(x, (str, int, float, bool)) or x is None:
        return x
    return repr(x)


# ----------------------------------------------------------------------------- interpreter
class ScriptedMismatch:
    def __init__(self, desc, details, describe_raises=False):
        self._desc = desc
        self._details = details
        self._describe_raises = describe_raises

    def describe(self):
        if self._describe_raises:
            raise RuntimeError(self._desc)
        return self._desc

    def get_details(self):
        return dict(self._details)


class _EmptyAll(_MismatchesAll):
    """testtools' own MismatchesAll with no children, worded by the script."""

    def __init__(self, desc):
        super().__init__([])
        self._desc = desc

    def describe(self):
        return self._desc


class ScriptedMatcher:
    def __init__(self, mm, env=None):
        self._mm = mm
        self._env = env
        self.seen = []

    def match(self, matchee):
        self.seen.append(matchee)
        if self._mm is None:
            return None
        details = {}
        for name, (shape, chunks) in self._mm["details"]:
            if shape == "cellref":
                env, cell = self._env, chunks
                ct = TEXT_CT if env.prog["cells"][cell]["shape"] == "text" else BIN_CT
                details[name] = _content.Content(ct, (lambda c=cell: list(env.cells[c])))
            else:
                details[name] = _content.Content(TEXT_CT if shape == "text" else BIN_CT,
                                                 (lambda c=chunks: list(c)))
        if self._mm.get("stock_empty") and not details:
            return _EmptyAll(self._mm["desc"])
        return ScriptedMismatch(self._mm["desc"], details, bool(self._mm.get("describe_raises")))

    def __str__(self):
        return "Scripted(%s)" % (self._mm["desc"] if self._mm else "ok")


class Scratch:
    """Object whose attributes get patched: 'a' exists on the instance, 'b' does not exist,
    'c' exists on the class only."""

    c = ("orig-class-c",)

    def __init__(self, i):
        self.a = ("orig-a", i)


class SlotScratch:
    """'a' is a filled slot, 'b' an empty one, 'c' a property with a setter and no deleter."""

    __slots__ = ("a", "b", "_c")

    def __init__(self, i):
        self.a = ("orig-slot-a", i)
        self._c = ("orig-prop-c", i)

    @property
    def c(self):
        return self._c

    @c.setter
    def c(self, value):
        self._c = value


class PropScratch:
    """An ordinary object (it has a __dict__): 'a' on the instance, 'b' absent, 'c' a read/write
    property without a deleter."""

    def __init__(self, i):
        self.a = ("orig-a", i)
        self._c = ("orig-prop-c", i)

    @property
    def c(self):
        return self._c

    @c.setter
    def c(self, value):
        self._c = value


_MISSING = ("missing",)


def observe_obj(o):
    """What a user can see of the patchable attributes (identity matters, storage does not)."""
    return {name: getattr(o, name, _MISSING) for name in ("a", "b", "c")}


class Env:
    """Mutable state around one scripted case: cells, scratch objects, logs."""

    def __init__(self, prog, world):
        self.prog = prog
        self.world = world
        self.reset_sources()
        self.objs = [(Scratch, SlotScratch, PropScratch)[i % 3](i) for i in range(prog["nobjs"])]
        self.obj_snap = [observe_obj(o) for o in self.objs]
        self.handler_log = []   # (seq, hid, exc marker/class)
        self.op_obs = []        # local observations of assert/expect ops
        self.clobbered = []     # bytes of details a user addDetail replaced
        self.user_handler_log = []
        self.fixture_objs = {}
        self.raised_objects = {}

    def reset_sources(self):
        self.cells = {k: list(v["chunks"]) for k, v in self.prog["cells"].items()}


def _make_exc(kind, marker, extra=None):
    if kind == "fail":
        return AssertionError(marker)
    if kind == "error":
        return RuntimeError(marker)
    if kind == "skip":
        return unittest.SkipTest(marker)
    if kind == "subfail":
        return SubFail(marker)
    if kind == "subskip":
        return SubSkip(marker)
    if kind == "suberror":
        return SubError(marker)
    odd = sum(map(ord, marker)) % 2
    if kind == "kbi":
        return (SubInterrupt if odd else KeyboardInterrupt)(marker)
    if kind == "sysexit":
        return (SubExit if odd else SystemExit)(marker)
    if kind == "abort":
        return Abort(marker)
    if kind == "genexit":
        return GeneratorExit(marker)
    if kind == "user":
        return USER_CLASSES[extra](marker)
    raise AssertionError(kind)


class Reason:
    """A skip reason that is not a str but can be cast to one."""

    def __init__(self, text):
        self.text = text

    def __str__(self):
        return self.text


def skip_reason_text(marker, extra):
    """What the reason of a scripted skip reads as."""
    if extra == "int":
        return str(int(marker[2:-1]))
    if extra == "none":
        return None
    return marker


def _multi_exc(parts):
    infos = []
    for p in parts:
        if p[0] == "multi":
            infos.append(_exc_info_of(_multi_exc(p[1])))
        else:
            infos.append(_exc_info_of(_make_exc(p[0], p[1])))
    return MultipleExceptions(*infos)


def _exc_info_of(exc):
    try:
        raise exc
    except BaseException:
        return sys.exc_info()


def _do_raise(case, kind, marker, extra, env=None):
    if kind == "xfail":
        def predicate():
            raise AssertionError(extra)
        case.expectFailure("reason-" + marker, predicate)
        raise AssertionError("expectFailure returned")  # pragma: no cover
    if kind == "uxsuccess":
        case.expectFailure("reason-" + marker, lambda: None)
        raise AssertionError("expectFailure returned")  # pragma: no cover
    if kind == "skip":
        if extra == "int":
            case.skipTest(int(marker[2:-1]))
        if extra == "none":
            raise case.skipException()
        if extra == "obj":
            case.skipTest(Reason(marker))
        case.skipTest(marker)
    if kind == "multi":
        raise _multi_exc(extra)
    exc = _make_exc(kind, marker, extra)
    if env is not None:
        env.raised_objects[marker] = exc
    raise exc


class ScriptedFixture(_fixtures.Fixture):
    def __init__(self, fid, spec, env):
        super().__init__()
        self._fid = fid
        self._spec = spec
        self._env = env

    def _setUp(self):
        env, spec = self._env, self._spec
        env.world.xlog("fx-setup", self._fid)
        for i, (name, (shape, chunks)) in enumerate(spec["details"]):
            if i % 2 and not spec["setup_raise"]:
                # a live buffer: the same list object every time, emptied when the fixture is torn
                # down (which is after the test case has gathered the fixture's details)
                live = list(chunks)
                self.addCleanup(live.clear)
                self.addDetail(name, _content.Content(TEXT_CT if shape == "text" else BIN_CT, (lambda c=live: c)))
                continue
            if i == 0 and int(self._fid[1:]) % 2 == 1 and not spec["setup_raise"]:
                # a fresh list every time, but of the fixture's own mutable buffers
                bufs = [bytearray(c) for c in chunks]

                def wipe(bufs=bufs):
                    for b in bufs:
                        b.clear()

                self.addCleanup(wipe)
                self.addDetail(name, _content.Content(TEXT_CT if shape == "text" else BIN_CT, (lambda c=bufs: list(c))))
                continue
            self.addDetail(name, _content.Content(TEXT_CT if shape == "text" else BIN_CT,
                                                  (lambda c=chunks: list(c))))
        for i, r in enumerate(spec["cleanups"]):
            self.addCleanup(self._cleanup, i, r)
        if spec["setup_raise"]:
            kind, marker = spec["setup_raise"]
            raise _make_exc(kind, marker)

    def _cleanup(self, i, r):
        self._env.world.xlog("fx-cleanup", self._fid, i)
        if r:
            raise _make_exc(r[0], r[1])


def run_ops(case, env, ops):
    w = env.world
    prog = env.prog
    for item in ops:
        oid, op = item["id"], item["op"]
        w.xlog("op", oid)
        what = op[0]
        if what == "nop":
            pass
        elif what == "cleanup":
            cid = op[1]
            # positional and keyword arguments both have to reach the cleanup
            if oid % 3 == 2:
                case.addCleanup(_cleanup_kw, fn=(case, env, cid))
            elif oid % 2:
                case.addCleanup(_cleanup_body, case, env, cid=cid)
            else:
                case.addCleanup(_cleanup_body, case, env, cid)
        elif what == "detail":
            name, cell = op[1], op[2]
            prev = case.getDetails().get(name)
            if prev is not None:
                try:
                    env.clobbered.append(b"".join(prev.iter_bytes()))
                except Exception:
                    pass
            shape = prog["cells"][cell]["shape"]
            case.addDetail(name, _content.Content(
                TEXT_CT if shape == "text" else BIN_CT,
                (lambda c=cell: list(env.cells[c]))))
        elif what == "setcell":
            env.cells[op[1]] = list(op[2])
        elif what in ("expect", "assert", "assert_fn"):
            mm = op[1]
            matcher = ScriptedMatcher(mm, env)
            matchee = ("matchee", oid)
            raised = None
            try:
                if what == "expect":
                    case.expectThat(matchee, matcher)
                elif what == "assert":
                    case.assertThat(matchee, matcher)
                else:
                    _assert_that(matchee, matcher)
            except BaseException as e:
                raised = e
                raise
            finally:
                env.op_obs.append((what, oid, "raises" if (mm is not None and mm.get("describe_raises")) else mm is not None,
                                   None if raised is None else type(raised).__name__,
                                   len(matcher.seen)))
        elif what == "patch":
            case.patch(env.objs[op[1]], op[2], (op[3], oid))
        elif what == "fixture":
            fid = op[1]
            fx = ScriptedFixture(fid, prog["fixtures"][fid], env)
            env.fixture_objs[fid] = fx
            case.useFixture(fx)
            # something the fixture only learns while the test uses it
            fx.addDetail("fxlate", _content.Content(BIN_CT, lambda fid=fid: [b"LATE|" + fid.encode()]))
        elif what == "onexc":
            hid = op[1]

            def handler(exc_info, hid=hid):
                env.handler_log.append((w.tick(), hid, type(exc_info[1]).__name__, str(exc_info[1])))

            case.addOnException(handler)
        elif what == "force_fail":
            case.force_failure = True
        elif what == "raise":
            if op[3] == "again":
                # the same exception object as an earlier raise of this run (if that one ran at all)
                if op[2] not in env.raised_objects:
                    env.raised_objects[op[2]] = _make_exc(op[1], op[2])
                raise env.raised_objects[op[2]]
            _do_raise(case, op[1], op[2], op[3], env)
        elif what == "bulk_cleanups":
            for i in range(op[1]):
                case.addCleanup(env.world.xlog, "bulk", i)
        else:  # pragma: no cover
            raise AssertionError(what)


def _cleanup_body(case, env, cid):
    env.world.xlog("cleanup", cid)
    run_ops(case, env, env.prog["cleanups"][cid])
    return _RETURNS[env.prog.get("returns")]


def _cleanup_kw(fn=None):
    """A cleanup that takes its argument under a keyword the runner happens to use internally."""
    return _cleanup_body(*fn)


class _EqualToAll:
    """What unittest.mock.ANY is: equal to everything."""

    def __eq__(self, other):
        return True

    def __ne__(self, other):
        return False

    __hash__ = object.__hash__

    def __repr__(self):
        return "<ANY>"


# what the scripted stages and cleanups *return* (they are not supposed to return anything, and nothing
# about a run may depend on it)
_RETURNS = {None: None, "zero": 0, "any": _EqualToAll()}


_REPORT = {
    "failure": "addFailure", "error": "addError", "skip": "addSkip", "success": "addSuccess",
}


def build_case(prog, env, run_test_with=None):
    """Build a fresh TestCase instance for the program."""
    stages = prog["stages"]

    ret = _RETURNS[prog.get("returns")]

    class Scripted(testtools.TestCase):
        def setUp(self):
            if prog.get("handlers_in_setup") and not self.__dict__.get("_verif_handlers_in"):
                self._verif_handlers_in = True
                install_handlers(self)
            run_ops(self, env, stages["setUp_pre"])
            super().setUp()
            env.world.xlog("upcall", "setUp")
            run_ops(self, env, stages["setUp_post"])
            return ret

        def tearDown(self):
            run_ops(self, env, stages["tearDown_pre"])
            super().tearDown()
            env.world.xlog("upcall", "tearDown")
            run_ops(self, env, stages["tearDown_post"])
            return ret

        def test_it(self):
            run_ops(self, env, stages["test"])
            return ret

    if run_test_with is not None:
        Scripted.run_tests_with = run_test_with
    ms = prog["method_skip"]
    if ms:
        if ms[0] == "skip":
            Scripted.test_it = testtools.skip(ms[1])(Scripted.test_it)
        elif ms[0] == "skipIf":
            Scripted.test_it = testtools.skipIf(True, ms[1])(Scripted.test_it)
        else:
            Scripted.test_it = testtools.skipUnless(False, ms[1])(Scripted.test_it)
    if prog["xfail_decorator"]:
        Scripted.test_it = unittest.expectedFailure(Scripted.test_it)
    if prog["class_skip"] is not None:
        Scripted = testtools.skip(prog["class_skip"])(Scripted)
    Scripted.__qualname__ = Scripted.__name__ = "Scripted"
    if prog.get("force_before_run") == "class":
        Scripted.force_failure = True

    def install_handlers(case):
        for h in prog["handlers"]:
            cls = USER_CLASSES[h["cls"]]
            method = _REPORT[h["reports"]]

            def handler(case_, result, exc, method=method, h=h):
                env.user_handler_log.append((env.world.tick(), h["cls"], h["reports"]))
                if method == "addSkip":
                    case_.addDetail("reason", _content.text_content("user-handler-skip"))
                getattr(result, method)(case_, details=case_.getDetails())

            pos = min(h["pos"], len(case.exception_handlers))
            case.exception_handlers.insert(pos, (cls, handler))

    def make_sibling():
        # another test object of the same class, configured but never run: nothing of it is the
        # main object's business (handlers, cleanups, details, forced failure are per instance)
        sib = Scripted("test_it")

        def sib_handler(case_, result, exc):
            env.user_handler_log.append((env.world.tick(), "sibling", "skip"))
            case_.addDetail("reason", _content.text_content("sibling-handler-skip"))
            result.addSkip(case_, details=case_.getDetails())

        for name in sorted(USER_CLASSES):
            sib.exception_handlers.insert(0, (USER_CLASSES[name], sib_handler))
        sib.addOnException(lambda exc_info: env.world.xlog("sibling-onexc"))
        sib.addCleanup(env.world.xlog, "sibling-cleanup")
        sib.addDetail("sibling-detail", _content.text_content("sibling"))
        sib.force_failure = True
        env.sibling = sib

    if prog.get("sibling") == "before":
        make_sibling()
    case = Scripted("test_it")
    if prog.get("sibling") == "after":
        make_sibling()
    if prog.get("force_before_run") == "instance":
        case.force_failure = True
    if not prog.get("handlers_in_setup"):
        install_handlers(case)
    return case


# ----------------------------------------------------------------------------- model
class Raised:
    __slots__ = ("kind", "marker", "stage", "base", "tb_marker", "handlers", "extra", "part_of_multi")

    def __init__(self, kind, marker, stage, extra=None, tb_marker=None, handlers=(), part=False):
        self.kind = kind
        self.marker = marker
        self.stage = stage
        self.base = kind in BASE_KINDS
        self.tb_marker = tb_marker   # marker that must appear in some traceback detail
        self.handlers = tuple(handlers)
        self.extra = extra
        self.part_of_multi = part

    def as_list(self):
        return [self.kind, self.marker, self.stage]


class _StageAbort(Exception):
    pass


class Model:
    """Reference semantics of one TestCase.run() on a program."""

    def __init__(self, prog):
        self.prog = prog
        self.log = []          # predicted execution log (without seq)
        self.R = []            # Raised, in order
        self.force = False
        self.expect_mismatches = []   # mismatch dicts from expectThat
        self.assert_mismatches = []
        self.mm_payloads = []  # (source op id, name, bytes) that must be delivered
        self.mm_cellrefs = []  # (source op id, name, cell): bytes current at reporting time
        self.fx_payloads = []  # (fid, name, bytes)
        self.user_details = {}  # name -> cell (last registration wins)
        self.cells = {k: list(v["chunks"]) for k, v in prog["cells"].items()}
        self.stack = []        # cleanup stack entries
        self.handlers = []     # on-exception handler ids registered so far
        self.skip_decorated = None
        self.setup_ok = None
        if prog.get("force_before_run"):
            self.force = True
        self.outcome_by_decorator = False
        self._run()

    # -- helpers
    def _raise(self, kind, marker, stage, extra=None):
        """Record what propagates out of a stage for one raise op."""
        h = tuple(self.handlers)
        if kind == "multi":
            self._multi(extra, stage, h)
        elif kind == "xfail":
            self.R.append(Raised("xfail", marker, stage, tb_marker=extra, handlers=h))
        elif kind == "uxsuccess":
            self.R.append(Raised("uxsuccess", marker, stage, handlers=h))
        elif kind == "skip":
            self.R.append(Raised("skip", marker, stage, handlers=h, extra=extra))
        else:
            self.R.append(Raised(kind, marker, stage, extra=extra, tb_marker=marker, handlers=h))
        raise _StageAbort()

    def _multi(self, parts, stage, h):
        if not parts:
            # nothing inside: the MultipleExceptions itself is what user code raised (an Exception)
            self.R.append(Raised("emptymulti", None, stage, handlers=h, part=False))
            return
        for p in parts:
            if p[0] == "multi":
                self._multi(p[1], stage, h)
            else:
                k, m = p
                self.R.append(Raised(k, m, stage, tb_marker=(None if k == "skip" else m), handlers=h, part=True))

    def _ops(self, ops, stage):
        for item in ops:
            oid, op = item["id"], item["op"]
            self.log.append(("op", oid))
            what = op[0]
            if what == "cleanup":
                self.stack.append(("cleanup", op[1]))
            elif what == "detail":
                self.user_details[op[1]] = op[2]
            elif what == "setcell":
                self.cells[op[1]] = list(op[2])
            elif what == "expect":
                if op[1] is not None and op[1].get("describe_raises"):
                    # the mismatch's details are attached, then rendering it raises out of expectThat
                    self._mm_details(oid, op[1])
                    self._raise("error", op[1]["desc"], stage)
                elif op[1] is not None:
                    self.force = True
                    self.expect_mismatches.append((oid, op[1]))
                    self._mm_details(oid, op[1])
            elif what == "assert":
                if op[1] is not None:
                    self.assert_mismatches.append((oid, op[1]))
                    self._mm_details(oid, op[1])
                    self._raise("fail", op[1]["desc"], stage)
            elif what == "assert_fn":
                if op[1] is not None:
                    self.assert_mismatches.append((oid, op[1]))
                    self._raise("fail", op[1]["desc"], stage)
            elif what == "patch":
                self.stack.append(("unpatch", op[1], op[2]))
            elif what == "fixture":
                self._fixture(op[1], stage)
            elif what == "onexc":
                self.handlers.append(op[1])
            elif what == "force_fail":
                self.force = True
            elif what == "raise":
                self._raise(op[1], op[2], stage, None if op[3] == "again" else op[3])
            elif what == "bulk_cleanups":
                for i in range(op[1]):
                    self.stack.append(("bulk", i))

    def _mm_details(self, oid, mm):
        for name, (shape, chunks) in mm["details"]:
            if shape == "cellref":
                self.mm_cellrefs.append((oid, name, chunks))     # resolved at reporting time
            else:
                self.mm_payloads.append((oid, name, b"".join(chunks)))

    def _fixture(self, fid, stage):
        spec = self.prog["fixtures"][fid]
        self.log.append(("fx-setup", fid))
        for name, (shape, chunks) in spec["details"]:
            self.fx_payloads.append((fid, name, b"".join(chunks)))
        if spec["setup_raise"]:
            kind, marker = spec["setup_raise"]
            h = tuple(self.handlers)
            parts = [Raised(kind, marker, stage, tb_marker=(None if kind == "skip" else marker), handlers=h, part=True)]
            for i in reversed(range(len(spec["cleanups"]))):
                self.log.append(("fx-cleanup", fid, i))
                r = spec["cleanups"][i]
                if r:
                    parts.append(Raised(r[0], r[1], stage, tb_marker=r[1], handlers=h, part=True))
            parts.append(Raised("setuperror", None, stage, handlers=h, part=True))
            self.R.extend(parts)
            raise _StageAbort()
        self.fx_payloads.append((fid, "fxlate", b"LATE|" + fid.encode()))
        self.stack.append(("fxclean", fid))
        self.stack.append(("fxgather", fid))

    def _stage(self, ops, stage):
        try:
            self._ops(ops, stage)
            return True
        except _StageAbort:
            return False

    def _run(self):
        prog = self.prog
        if prog["class_skip"] is not None:
            self.skip_decorated = str(prog["class_skip"])
            return
        if prog["method_skip"]:
            self.skip_decorated = str(prog["method_skip"][1])
            return
        st = prog["stages"]
        ok = self._stage(st["setUp_pre"], "setUp")
        if ok:
            self.log.append(("upcall", "setUp"))
            ok = self._stage(st["setUp_post"], "setUp")
        self.setup_ok = ok
        if ok:
            n0 = len(self.R)
            body_ok = self._stage(st["test"], "test")
            if prog["xfail_decorator"]:
                new = self.R[n0:]
                # (the wrapper catches Exception: a MultipleExceptions is one, whatever it carries)
                if not body_ok and not any(r.base and not r.part_of_multi for r in new):
                    # any Exception-derived error (incl. MultipleExceptions, skip) becomes
                    # an expected failure; the wrapper attaches no traceback of its own
                    del self.R[n0:]
                    self.R.append(Raised("xfail", None, "test", tb_marker=None,
                                         handlers=tuple(self.handlers),
                                         extra=[r.as_list() for r in new]))
                    self.R[-1].extra = {"decorator": True, "behind": [r.as_list() for r in new]}
                elif body_ok:
                    self.R.append(Raised("uxsuccess", None, "test", handlers=tuple(self.handlers)))
            if self._stage(st["tearDown_pre"], "tearDown"):
                self.log.append(("upcall", "tearDown"))
                self._stage(st["tearDown_post"], "tearDown")
        while self.stack:
            ent = self.stack.pop()
            if ent[0] == "bulk":
                self.log.append(("bulk", ent[1]))
            elif ent[0] == "cleanup":
                self.log.append(("cleanup", ent[1]))
                self._stage(prog["cleanups"][ent[1]], "cleanup")
            elif ent[0] == "fxclean":
                fid = ent[1]
                spec = prog["fixtures"][fid]
                h = tuple(self.handlers)
                for i in reversed(range(len(spec["cleanups"]))):
                    self.log.append(("fx-cleanup", fid, i))
                    r = spec["cleanups"][i]
                    if r:
                        self.R.append(Raised(r[0], r[1], "cleanup", tb_marker=r[1], handlers=h, part=True))
            # unpatch / fxgather: no log entry

    # -- derived facts
    def handler_table(self):
        """exception class kinds in the order TestCase.exception_handlers is consulted."""
        table = [("skipk", "skip"), ("failk", "failure"), ("xfail", "xfail"),
                 ("uxsuccess", "uxsuccess"), ("exception", "error")]
        for h in self.prog["handlers"]:
            pos = min(h["pos"], len(table))
            table.insert(pos, ("user:" + h["cls"], h["reports"]))
        return table

    def outcome_of(self, r):
        """Outcome kind a single Raised maps to, walking the handler list in order."""
        if r.base:
            return "error"
        isa = _ISA[r.kind] if r.kind != "user" else _USER_ISA[r.extra]
        for cls, reports in self.handler_table():
            if cls in isa:
                return reports
        return "error"


# which handler-table classes an exception kind is an instance of
_ISA = {
    "fail": {"failk", "exception"},
    "subfail": {"failk", "exception"},
    "error": {"exception"},
    "suberror": {"exception"},
    "setuperror": {"exception"},
    "emptymulti": {"exception"},
    "skip": {"skipk", "exception"},
    "subskip": {"skipk", "exception"},
    "xfail": {"xfail", "exception"},
    "uxsuccess": {"uxsuccess", "exception"},
}
_USER_ISA = {
    "User0": {"user:User0", "exception"},
    "User1": {"user:User1", "failk", "exception"},
    "User2": {"user:User2", "skipk", "exception"},
}

FAILING = ("failure", "error", "uxsuccess")
