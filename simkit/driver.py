"""Driver: seeded search over runs, fork pool, watchdogs, shrinking, replay, evidence.

Exit codes: 0 = property held on everything explored (KNOWN-FINDING lines allowed),
1 = VIOLATION printed, 2 = harness error / watchdog (never confused with either).
"""

import argparse
import collections
import faulthandler
import gc
import importlib
import json
import multiprocessing
import os
import subprocess
import sys
import time
import traceback
from concurrent.futures import ProcessPoolExecutor, wait, FIRST_COMPLETED
from concurrent.futures.process import BrokenProcessPool

from .tape import Tape, digest_of, STREAMS

VERIF_DIR = os.path.dirname(os.path.dirname(os.path.abspath(__file__)))
DEFAULT_SEED = 20260927
HASH_CAP = 3_000_000  # max distinct hashes kept per measure (memory bound)


class Violation:
    __slots__ = ("kind", "key", "message", "step")

    def __init__(self, kind, key, message="", step=None):
        self.kind = kind
        self.key = key
        self.message = message
        self.step = step

    def ident(self):
        return (self.kind, self.key)

    def as_dict(self):
        return {"kind": self.kind, "key": self.key, "message": self.message, "step": self.step}

    def __repr__(self):
        return f"Violation({self.kind!r}, {self.key!r}, {self.message!r})"


class Outcome:
    """What one simulated run reports back."""

    __slots__ = (
        "violations", "fired", "configured", "probes", "sim_time", "ihash", "hhash",
        "nontrivial", "sample", "steps",
    )

    def __init__(self):
        self.violations = []
        self.fired = {}        # fault kind -> times it actually fired in this run
        self.configured = {}   # fault kind -> 1 if enabled/planned in this run
        self.probes = {}       # reach probe -> count
        self.sim_time = 0.0    # simulated time covered (unit stated by the check)
        self.steps = 0         # simulator steps (scheduler steps / reactor iterations / ops)
        self.ihash = None      # digest of the interleaving / fault trace (None: no schedule)
        self.hhash = 0         # digest of the abstract history
        self.nontrivial = False
        self.sample = None

    def violate(self, kind, key, message="", step=None):
        self.violations.append(Violation(kind, key, message, step))

    def fire(self, kind, n=1):
        self.fired[kind] = self.fired.get(kind, 0) + n

    def plan(self, kind):
        self.configured[kind] = 1

    def probe(self, name, n=1):
        self.probes[name] = self.probes.get(name, 0) + n


# --------------------------------------------------------------------------- repo
def repo_root():
    return os.environ.get("VERIF_REPO", "/repo")


def bind_repo():
    """Make `import testtools` resolve to the working tree under test."""
    root = os.path.realpath(repo_root())
    sys.dont_write_bytecode = True
    if sys.path[0] != root:
        sys.path.insert(0, root)
    import testtools  # noqa

    got = os.path.realpath(os.path.dirname(os.path.dirname(testtools.__file__)))
    if got != root:
        raise RuntimeError(f"testtools imported from {got}, expected {root}")
    return root


def repo_rev():
    root = repo_root()
    try:
        head = subprocess.run(
            ["git", "-C", root, "rev-parse", "HEAD"], capture_output=True, text=True, timeout=20
        ).stdout.strip()
        dirty = bool(
            subprocess.run(
                ["git", "-C", root, "status", "--porcelain", "--untracked-files=no"],
                capture_output=True, text=True, timeout=20,
            ).stdout.strip()
        )
    except Exception:
        head, dirty = "unknown", False
    return {"head": head, "dirty": dirty, "root": root}


# --------------------------------------------------------------------------- known findings
def load_known(prop):
    path = os.path.join(VERIF_DIR, "known_findings.json")
    try:
        with open(path) as f:
            data = json.load(f)
    except FileNotFoundError:
        return []
    return [
        e for e in data.get("findings", [])
        if e.get("property") == prop and e.get("status") == "known"
    ]


def match_known(known, kind, key):
    for e in known:
        if e["kind"] == kind and e["key"] == key:
            return e
    return None


# --------------------------------------------------------------------------- workers
_MOD = None


def _load(modname):
    global _MOD
    if _MOD is None or _MOD.__name__ != modname:
        bind_repo()
        _MOD = importlib.import_module(modname)
    return _MOD


def guarded_run(mod, tape, o):
    """run_one, except that an Exception raised *by the code under test* (innermost frame inside
    <repo>/testtools, not in its tests) and not handled by the check is a violation, not a harness
    error: every workload stays inside its property's domain, where testtools has no business raising.
    Anything raised from a /verif frame (harness bugs, injected faults that escape) still propagates."""
    try:
        return mod.run_one(tape, o)
    except Exception as e:
        tb = e.__traceback__
        while tb is not None and tb.tb_next is not None:
            tb = tb.tb_next
        fn = os.path.realpath(tb.tb_frame.f_code.co_filename) if tb is not None else ""
        pkg = os.path.join(os.path.realpath(repo_root()), "testtools") + os.sep
        if not fn.startswith(pkg) or fn.startswith(pkg + "tests" + os.sep):
            raise
        out = Outcome()
        where = f"{os.path.basename(fn)}:{tb.tb_frame.f_code.co_name}"
        out.violate("code-under-test-raised", f"{type(e).__name__}:{where}",
                    "unhandled exception out of testtools on an in-domain workload:\n" + "".join(traceback.format_exception(e))[-1500:])
        out.hhash = digest_of("code-under-test-raised", type(e).__name__, where)
        out.sample = {"raised": repr(e), "where": where}
        return out


def _run_index(mod, seed, index, opts, want_sample=False):
    tape = Tape(seed=seed, prop=mod.ID, index=index)
    o = dict(opts)
    o["want_sample"] = want_sample
    out = guarded_run(mod, tape, o)
    return tape, out


def _batch(modname, seed, indices, opts, sample_every, batch_limit_s):
    """Run a batch of run indices; return an aggregate (picklable)."""
    faulthandler.dump_traceback_later(batch_limit_s, exit=True)
    try:
        mod = _load(modname)
        t0 = time.time()
        agg = {
            "n": 0, "fired": collections.Counter(), "configured": collections.Counter(),
            "probes": collections.Counter(), "sim_time": 0.0, "steps": 0,
            "ihashes": set(), "hhashes": set(), "nontrivial_hashes": set(),
            "samples": [], "violations": [], "digests": {}, "error": None,
        }
        gc_was = gc.isenabled()
        for index in indices:
            want_sample = sample_every and (index % sample_every == 0)
            try:
                tape, out = _run_index(mod, seed, index, opts, want_sample)
            except BaseException:
                agg["error"] = {"index": index, "traceback": traceback.format_exc()}
                break
            agg["n"] += 1
            for k, v in out.fired.items():
                agg["fired"][k] += v
            for k, v in out.configured.items():
                agg["configured"][k] += v
            for k, v in out.probes.items():
                agg["probes"][k] += v
            agg["sim_time"] += out.sim_time
            agg["steps"] += out.steps
            if out.ihash is not None:
                agg["ihashes"].add(out.ihash)
            agg["hhashes"].add(out.hhash)
            if out.nontrivial:
                agg["nontrivial_hashes"].add(digest_of(out.ihash, out.hhash))
            if want_sample and out.sample is not None and len(agg["samples"]) < 3:
                agg["samples"].append({"run": index, "case": out.sample})
            if index < opts.get("selftest_n", 0):
                agg["digests"][index] = digest_of(out.ihash, out.hhash, tape.record)
            if out.violations:
                seen = set()
                for v in out.violations:
                    if v.ident() in seen:
                        continue
                    seen.add(v.ident())
                    agg["violations"].append(
                        {"index": index, "v": v.as_dict(), "record": tape.snapshot(), "batch_first": indices[0]}
                    )
        if gc_was and not gc.isenabled():
            gc.enable()
        agg["wall"] = time.time() - t0
        return agg
    finally:
        faulthandler.cancel_dump_traceback_later()


def _fails_with(mod, streams, ident, opts):
    tape = Tape(streams=streams)
    o = dict(opts)
    o["want_sample"] = False
    try:
        out = guarded_run(mod, tape, o)
    except BaseException:
        return None, None
    for v in out.violations:
        if v.ident() == ident:
            return tape.snapshot(), v
    return None, None


def _shrink_task(modname, record, ident, opts, budget_s):
    """Stream-wise delta debugging on the recorded tape."""
    faulthandler.dump_traceback_later(budget_s * 3 + 60, exit=True)
    try:
        mod = _load(modname)
        ident = tuple(ident)
        deadline = time.time() + budget_s
        best, v = _fails_with(mod, record, ident, opts)
        if best is None:
            return {"record": record, "minimised": False, "evals": 1, "note": "did not reproduce in shrinker"}
        evals = 1

        def attempt(cand):
            nonlocal best, evals
            evals += 1
            rec, vv = _fails_with(mod, cand, ident, opts)
            if rec is not None:
                if _size(rec) <= _size(cand):
                    best = rec
                else:
                    best = cand
                return True
            return False

        order = ["faults", "program", "schedule", "payload", "config"]
        order += [s for s in best if s not in order]
        progress = True
        while progress and time.time() < deadline:
            progress = False
            for stream in order:
                if time.time() >= deadline:
                    break
                # 1. truncate tail (reads past the end give 0)
                lst = best.get(stream, [])
                cut = len(lst) // 2
                while cut >= 1 and time.time() < deadline:
                    lst = best.get(stream, [])
                    if len(lst) >= cut and cut > 0:
                        cand = dict(best)
                        cand[stream] = lst[: len(lst) - cut]
                        if attempt(cand):
                            progress = True
                            continue
                    cut //= 2
                # 2. delete spans
                size = max(1, len(best.get(stream, [])) // 2)
                while size >= 1 and time.time() < deadline:
                    i = 0
                    while i < len(best.get(stream, [])) and time.time() < deadline:
                        lst = best.get(stream, [])
                        cand = dict(best)
                        cand[stream] = lst[:i] + lst[i + size:]
                        if attempt(cand):
                            progress = True
                        else:
                            i += size
                    size //= 2
                # 3a. zero out spans (keeps the alignment of everything after the span)
                size = max(1, len(best.get(stream, [])) // 2)
                while size >= 2 and time.time() < deadline:
                    i = 0
                    while i < len(best.get(stream, [])) and time.time() < deadline:
                        lst = best.get(stream, [])
                        if any(lst[i:i + size]):
                            cand = dict(best)
                            cand[stream] = lst[:i] + [0] * len(lst[i:i + size]) + lst[i + size:]
                            if attempt(cand):
                                progress = True
                        i += size
                    size //= 2
                # 3b. lower single values toward 0
                i = 0
                while i < len(best.get(stream, [])) and time.time() < deadline:
                    lst = best.get(stream, [])
                    val = lst[i]
                    if val != 0:
                        for nv in (0, val // 2, val - 1):
                            if nv >= val:
                                continue
                            cand = dict(best)
                            cand[stream] = lst[:i] + [nv] + lst[i + 1:]
                            if attempt(cand):
                                progress = True
                                break
                    i += 1
        return {"record": best, "minimised": True, "evals": evals}
    finally:
        faulthandler.cancel_dump_traceback_later()


def _dies(modname, seed, indices, opts, limit_s=900):
    """Run the indices in a fresh single-worker pool; True if that worker process dies."""
    ctx = multiprocessing.get_context("fork")
    pool = ProcessPoolExecutor(max_workers=1, mp_context=ctx)
    try:
        fut = pool.submit(_batch, modname, seed, indices, dict(opts, selftest_n=0), 0, limit_s)
        try:
            fut.result(timeout=limit_s + 30)
            return False
        except BrokenProcessPool:
            return True
        except Exception:
            return False
    finally:
        pool.shutdown(wait=False, cancel_futures=True)


def _find_crasher(modname, seed, indices, opts):
    """Smallest run index in `indices` (a range/list) whose execution kills the interpreter, or None."""
    indices = list(indices)
    if not _dies(modname, seed, indices, opts):
        return None
    while len(indices) > 1:
        half = indices[: len(indices) // 2]
        if _dies(modname, seed, half, opts):
            indices = half
        else:
            rest = indices[len(indices) // 2:]
            if not _dies(modname, seed, rest, opts):
                return None      # not reproducible in isolation
            indices = rest
    return indices[0]


def _size(rec):
    return sum(len(v) for v in rec.values()) * 1000 + sum(sum(v) for v in rec.values())


# --------------------------------------------------------------------------- replay
def replay_path(prop, record, ident=()):
    h = format(digest_of(record, list(ident)), "016x")
    d = os.path.join(os.environ.get("VERIF_REPLAY_DIR") or os.path.join(VERIF_DIR, "replays"), prop)
    os.makedirs(d, exist_ok=True)
    return os.path.join(d, f"{h}.json")


def do_replay(mod, path, opts):
    with open(path) as f:
        data = json.load(f)
    if data.get("crash"):
        code = ("import sys; sys.path.insert(0, %r); from simkit import driver; import importlib; driver.bind_repo(); "
                "m = importlib.import_module(%r); from simkit.tape import Tape; "
                "m.run_one(Tape(seed=%d, prop=m.ID, index=%d), dict(%r, want_sample=False)); print('SURVIVED')"
                % (VERIF_DIR, mod.__name__, data["seed"]["VERIF_SEED"], data["seed"]["run"], data.get("opts") or {}))
        p = subprocess.run([sys.executable, "-B", "-c", code], capture_output=True, text=True, timeout=600)
        print(f"replay property={mod.ID} file={path} (crash replay: run {data['seed']['run']} of seed {data['seed']['VERIF_SEED']} in a child process)")
        if "SURVIVED" in p.stdout and p.returncode == 0:
            print("no violation on this tree (the child process survived)")
            return 0
        print(f"  violation kind=process-crash key=interpreter-died step=None\n    child exit status {p.returncode}; stderr tail: {p.stderr[-400:]}")
        print(f"VIOLATION property={mod.ID} replay={path}")
        return 1
    streams = data["streams"]
    want = data.get("violation") or {}
    tape = Tape(streams=streams, trace=True)
    o = dict(opts)
    o.update(data.get("opts") or {})
    pre = data.get("prelude") or {}
    for idx in pre.get("runs", []):
        try:
            _run_index(mod, pre["VERIF_SEED"], idx, o)
        except Exception:
            pass
    o["want_sample"] = True
    out = guarded_run(mod, tape, o)
    print(f"replay property={mod.ID} file={path}")
    if pre.get("runs"):
        print(f"prelude: runs {pre['runs']} of VERIF_SEED {pre['VERIF_SEED']} were executed first in this process "
              "(the violation needs state they leave behind in the code under test)")
    print("decoded case:")
    print(json.dumps(out.sample, indent=1, default=repr)[:20000])
    if not out.violations:
        print("no violation on this tree")
        if want:
            print(f"REPLAY-CLEAN: recorded violation {want.get('kind')}:{want.get('key')} did not recur")
        return 0
    hit = None
    for v in out.violations:
        print(f"  violation kind={v.kind} key={v.key} step={v.step}\n    {v.message}")
        if want and (v.kind, v.key) == (want.get("kind"), want.get("key")):
            hit = v
    if want and hit is None:
        print("REPLAY-DIVERGED: a different violation than the recorded one")
    print(f"VIOLATION property={mod.ID} replay={path}")
    return 1


# --------------------------------------------------------------------------- main
def main(modname, argv=None):
    ap = argparse.ArgumentParser()
    ap.add_argument("--tier", default=os.environ.get("VERIF_TIER", "quick"), choices=["quick", "thorough"])
    ap.add_argument("--replay")
    ap.add_argument("--runs", type=int)
    ap.add_argument("--start", type=int, default=0)
    ap.add_argument("--jobs", type=int, default=int(os.environ.get("VERIF_JOBS", "0")) or min(16, os.cpu_count() or 1))
    ap.add_argument("--seed", type=int, default=int(os.environ.get("VERIF_SEED", DEFAULT_SEED)))
    ap.add_argument("--no-evidence", action="store_true")
    ap.add_argument("--no-shrink", action="store_true")
    ap.add_argument("--opt", action="append", default=[], help="k=v passed to the check")
    ap.add_argument("--digests", metavar="FILE", help="determinism audit: write {run index: digest} for --runs runs to FILE and exit")
    args = ap.parse_args(argv)

    bind_repo()
    mod = importlib.import_module(modname)
    opts = {"tier": args.tier}
    for kv in args.opt:
        k, _, v = kv.partition("=")
        opts[k] = json.loads(v) if v[:1] in "[{0123456789tfn-" else v
    if args.replay:
        return do_replay(mod, args.replay, opts)

    if args.digests:
        return _digests(modname, mod, args, opts)
    t_start = time.time()
    known = load_known(mod.ID)
    nruns = args.runs if args.runs is not None else mod.RUNS[args.tier]
    wall_cap = getattr(mod, "WALL_CAP", {"quick": 150, "thorough": 3000})[args.tier]
    selftest_n = min(getattr(mod, "SELFTEST_N", 1000), nruns)
    opts["selftest_n"] = selftest_n
    jobs = max(1, args.jobs)
    nbatches = max(jobs * 6, 1)
    bsize = max(1, min(getattr(mod, "MAX_BATCH", 5000), -(-nruns // nbatches)))
    sample_every = max(1, nruns // 24)
    batch_limit = getattr(mod, "BATCH_LIMIT_S", 600)

    ranges = []
    i = args.start
    end = args.start + nruns
    while i < end:
        ranges.append(range(i, min(end, i + bsize)))
        i += bsize

    total = {
        "n": 0, "fired": collections.Counter(), "configured": collections.Counter(),
        "probes": collections.Counter(), "sim_time": 0.0, "steps": 0,
        "ihashes": set(), "hhashes": set(), "nontrivial_hashes": set(), "samples": [],
        "digests": {},
    }
    late_new = {"ihashes": 0, "hhashes": 0}
    new_violations = {}   # ident -> first (lowest index) record
    known_hits = collections.Counter()
    reported = []
    harness_errors = []
    crashers = []
    capped = False
    ctx = multiprocessing.get_context("fork")
    pool = ProcessPoolExecutor(max_workers=jobs, mp_context=ctx)
    try:
        pending = {}
        it = iter(ranges)
        done_batches = 0
        stop_submitting = False

        def submit_next():
            nonlocal stop_submitting
            if stop_submitting:
                return False
            try:
                r = next(it)
            except StopIteration:
                return False
            fut = pool.submit(_batch, modname, args.seed, r, opts, sample_every, batch_limit)
            pending[fut] = r
            return True

        for _ in range(jobs * 2):
            if not submit_next():
                break
        selftest_future = None
        while pending:
            done, _ = wait(list(pending), return_when=FIRST_COMPLETED, timeout=30)
            if time.time() - t_start > wall_cap and not stop_submitting:
                stop_submitting = True
                capped = True
            for fut in done:
                r = pending.pop(fut)
                try:
                    agg = fut.result()
                except BrokenProcessPool:
                    # A worker process died: either our watchdog fired, or a run crashed the interpreter
                    # (a segfault from runaway recursion in the code under test, say).  The latter is a
                    # finding, not a harness problem: look for the run index that does it on its own.
                    in_flight = [r] + list(pending.values())
                    stop_submitting = True
                    pending.clear()
                    crasher = None
                    for rng in in_flight:
                        if fut is not selftest_future:
                            crasher = _find_crasher(modname, args.seed, rng, opts)
                        if crasher is not None:
                            break
                    if crasher is None:
                        harness_errors.append(f"worker died (watchdog or crash) in batches {[(x.start, x.stop) for x in in_flight]}; not reproducible in isolation")
                    else:
                        crashers.append(crasher)
                    pool.shutdown(wait=False, cancel_futures=True)
                    pool = ProcessPoolExecutor(max_workers=jobs, mp_context=ctx)
                    break
                except Exception as e:  # pragma: no cover
                    harness_errors.append(f"batch {r.start}..{r.stop}: {e!r}")
                    continue
                done_batches += 1
                if fut is selftest_future:
                    for idx, dg in agg["digests"].items():
                        if total["digests"].get(idx) != dg:
                            harness_errors.append(f"determinism self-test: run {idx} digests differ between two processes")
                    continue
                if agg["error"]:
                    harness_errors.append(
                        f"run {agg['error']['index']} raised inside the harness:\n{agg['error']['traceback']}"
                    )
                    stop_submitting = True
                total["n"] += agg["n"]
                for k in ("fired", "configured", "probes"):
                    total[k].update(agg[k])
                total["sim_time"] += agg["sim_time"]
                total["steps"] += agg["steps"]
                frac = total["n"] / max(1, nruns)
                for k in ("ihashes", "hhashes", "nontrivial_hashes"):
                    if len(total[k]) < HASH_CAP:
                        before = len(total[k])
                        total[k] |= agg[k]
                        if frac > 0.9 and k in late_new:
                            late_new[k] += len(total[k]) - before
                total["digests"].update(agg["digests"])
                for s in agg["samples"]:
                    if len(total["samples"]) < 8:
                        total["samples"].append(s)
                for viol in agg["violations"]:
                    ident = (viol["v"]["kind"], viol["v"]["key"])
                    e = match_known(known, *ident)
                    if e is not None:
                        known_hits[ident] += 1
                        continue
                    cands = new_violations.setdefault(ident, [])
                    cands.append(viol)
                    cands.sort(key=lambda v: v["index"])
                    del cands[5:]
                    stop_submitting = True
                submit_next()
            if not pending and not stop_submitting and selftest_n and selftest_future is None:
                # determinism slice: same indices again, in (most likely) another process
                selftest_future = pool.submit(
                    _batch, modname, args.seed, range(args.start, args.start + selftest_n), opts, 0, batch_limit
                )
                pending[selftest_future] = range(args.start, args.start + selftest_n)

        # ---------------------------------------------------------------- violations
        if new_violations and not harness_errors:
            items = sorted(new_violations.items(), key=lambda kv: kv[1][0]["index"])[:8]
            budget = {"quick": 20, "thorough": 120}[args.tier]
            unreproduced = []
            for ident, cands in items:
                if len(reported) >= 3:
                    break
                # A violation that depends on state left behind by earlier runs of the same worker
                # process (an address-keyed cache in the code under test, say) does not replay from
                # its own tape: try the other runs that showed the same violation before giving up.
                ok = False
                for viol in cands:
                    rec = viol["record"]
                    info = {"minimised": False, "evals": 0}
                    if not args.no_shrink:
                        try:
                            info = pool.submit(_shrink_task, modname, rec, ident, opts, budget).result()
                            rec = info["record"]
                        except BrokenProcessPool:
                            pool.shutdown(wait=False, cancel_futures=True)
                            pool = ProcessPoolExecutor(max_workers=jobs, mp_context=ctx)
                            info = {"minimised": False, "evals": 0, "note": "shrinker died; unshrunk tape kept"}
                    path = _write_replay(mod, args, opts, viol, rec, info)
                    ok = _verify_replay(mod, path, ident)
                    if ok:
                        reported.append((ident, path))
                        break
                    try:
                        os.remove(path)
                    except OSError:
                        pass
                if not ok:
                    path = _with_prelude(mod, args, opts, cands[0], ident)
                    if path is not None:
                        reported.append((ident, path))
                        ok = True
                if not ok:
                    unreproduced.append(
                        f"violation {ident} seen in runs {[v['index'] for v in cands]} did not reproduce from its replay file in a fresh process"
                    )
            # A violation that only shows after other runs in the same process (state kept in a process-wide cache
            # of the code under test) cannot be handed over as a replay file.  If another violation of this batch does
            # replay, that one is the report and the rest is a note; if none does, nothing here can be believed.
            if unreproduced and not reported:
                harness_errors.extend(unreproduced)
            else:
                for u in unreproduced:
                    print("NOTE (not reported, no replay):", u, file=sys.stderr)
        for idx in crashers:
            data = {
                "property": mod.ID, "check_version": getattr(mod, "VERSION", 1), "repo": repo_rev(),
                "seed": {"VERIF_SEED": args.seed, "run": idx},
                "opts": {k: v for k, v in opts.items() if k not in ("want_sample", "selftest_n")},
                "streams": None, "crash": True, "minimised": False,
                "decoded": {"note": "this run kills the interpreter; the tape is regenerated from the seed and run index"},
                "violation": {"kind": "process-crash", "key": "interpreter-died", "step": None,
                              "message": f"run {idx} (VERIF_SEED {args.seed}) terminates the worker process"},
            }
            path = replay_path(mod.ID, {"crash": [idx, args.seed]}, ("process-crash", "interpreter-died"))
            with open(path, "w") as f:
                json.dump(data, f, indent=1)
            if match_known(known, "process-crash", "interpreter-died") is not None:
                known_hits[("process-crash", "interpreter-died")] += 1
            else:
                reported.append((("process-crash", "interpreter-died"), path))
    finally:
        # (wait: tearing the pool down while its management thread is still alive prints a stray
        # "Bad file descriptor" at interpreter exit)
        try:
            pool.shutdown(wait=True, cancel_futures=True)
        except Exception:
            pass

    wall = time.time() - t_start
    for e in known:
        ident = (e["kind"], e["key"])
        n = known_hits.get(ident, 0)
        print(f"KNOWN-FINDING: property={mod.ID} {e['description']} [{e['kind']}:{e['key']}] "
              + (f"(hit in {n} runs)" if n else "(listed; not hit by this run's seeds)"))
    if not args.no_evidence:
        _write_evidence(mod, args, opts, total, late_new, wall, len(reported), known, known_hits, capped, nruns, harness_errors)
    print(
        f"{mod.ID} tier={args.tier} runs={total['n']} wall={wall:.1f}s "
        f"distinct_histories={len(total['hhashes'])} distinct_interleavings={len(total['ihashes'])} "
        f"violations={len(reported)} known_hits={sum(known_hits.values())}"
    )
    if harness_errors:
        for h in harness_errors[:5]:
            print("HARNESS-ERROR:", h, file=sys.stderr)
        return 2
    if reported:
        for ident, path in reported:
            print(f"VIOLATION property={mod.ID} replay={path}")
        return 1
    if total["n"] == 0:
        print("HARNESS-ERROR: nothing ran", file=sys.stderr)
        return 2
    return 0


def _digests(modname, mod, args, opts):
    """Run --runs indices in the pool (with --jobs workers) and dump their digests."""
    n = args.runs or 500
    opts = dict(opts, selftest_n=args.start + n)
    jobs = max(1, args.jobs)
    size = max(1, -(-n // (jobs * 3)))
    ctx = multiprocessing.get_context("fork")
    out = {}
    with ProcessPoolExecutor(max_workers=jobs, mp_context=ctx) as pool:
        futs = []
        i = args.start
        while i < args.start + n:
            futs.append(pool.submit(_batch, modname, args.seed, range(i, min(args.start + n, i + size)), opts, 0, 600))
            i += size
        for f in futs:
            agg = f.result()
            if agg["error"]:
                print("HARNESS-ERROR:", agg["error"]["traceback"], file=sys.stderr)
                return 2
            out.update({str(k): v for k, v in agg["digests"].items()})
    with open(args.digests, "w") as f:
        json.dump(out, f)
    print(f"{mod.ID} digests for {len(out)} runs written to {args.digests}")
    return 0


def _write_replay(mod, args, opts, viol, rec, info, prelude=None):
    tape = Tape(streams=rec, trace=True)
    o = dict(opts)
    o["want_sample"] = True
    decoded, vdict = None, viol["v"]
    try:
        out = guarded_run(mod, tape, o)
        decoded = out.sample
        for v in out.violations:
            if (v.kind, v.key) == (viol["v"]["kind"], viol["v"]["key"]):
                vdict = v.as_dict()
    except BaseException as e:
        decoded = {"error": repr(e)}
    data = {
        "property": mod.ID,
        "check_version": getattr(mod, "VERSION", 1),
        "repo": repo_rev(),
        "seed": {"VERIF_SEED": args.seed, "run": viol["index"]},
        "opts": {k: v for k, v in opts.items() if k not in ("want_sample", "selftest_n")},
        "streams": rec,
        "minimised": bool(info.get("minimised")),
        "shrink": {k: v for k, v in info.items() if k != "record"},
        "original_lengths": {k: len(v) for k, v in viol["record"].items()},
        "decoded": decoded,
        "violation": vdict,
    }
    if prelude:
        data["prelude"] = {
            "note": "the violation needs state that earlier runs of the same process left behind in the code under "
                    "test: these runs (regenerated from VERIF_SEED and their index) are executed first, then the tape",
            "VERIF_SEED": args.seed, "runs": list(prelude)}
    path = replay_path(mod.ID, rec, (viol["v"]["kind"], viol["v"]["key"]))
    with open(path, "w") as f:
        json.dump(data, f, indent=1, default=repr)
    return path


def _with_prelude(mod, args, opts, viol, ident):
    """The violation does not replay from its own tape.  Find a (short) list of earlier run indices of the same
    seed after which, in one fresh process, it does.  Returns the path of a verified replay file, or None."""
    index = viol["index"]
    info = {"minimised": False, "evals": 0, "note": "tape kept unshrunk; the prelude was shortened instead"}
    tried = set()
    for lo in (viol.get("batch_first", index), max(args.start, index - 400), max(args.start, index - 4000)):
        if lo >= index or lo in tried:
            continue
        tried.add(lo)
        runs = list(range(lo, index))

        def ok_with(r):
            info["evals"] += 1
            path = _write_replay(mod, args, opts, viol, viol["record"], info, prelude=r)
            return path if _verify_replay(mod, path, ident) else None

        path = ok_with(runs)
        if path is None:
            continue
        # shortest suffix that still does it (binary search; not monotone in general, so every step is verified)
        a, b = 0, len(runs) - 1           # invariant: runs[a:] works
        while a < b:
            mid = (a + b + 1) // 2
            if ok_with(runs[mid:]):
                a = mid
            else:
                b = mid - 1
        runs = runs[a:]
        # then drop single runs while that keeps it failing
        i = 1
        while i < len(runs) and len(runs) <= 40 and info["evals"] < 120:
            cand = runs[:i] + runs[i + 1:]
            if ok_with(cand):
                runs = cand
            else:
                i += 1
        return ok_with(runs)
    return None


def _verify_replay(mod, path, ident):
    env = dict(os.environ)
    cmd = [os.path.join(VERIF_DIR, "check"), mod.ID, "--replay", path]
    try:
        p = subprocess.run(cmd, capture_output=True, text=True, timeout=300, env=env)
    except subprocess.TimeoutExpired:
        return False
    return p.returncode == 1 and "REPLAY-DIVERGED" not in p.stdout and f"kind={ident[0]} key={ident[1]}" in p.stdout


def _write_evidence(mod, args, opts, total, late_new, wall, nviol, known, known_hits, capped, planned, harness_errors):
    n = total["n"]
    faults = {}
    for k in sorted(set(total["configured"]) | set(total["fired"])):
        faults[k] = {"runs_configured": total["configured"].get(k, 0), "fired": total["fired"].get(k, 0)}
    cov = {
        "evaluations": n,
        "distinct_nontrivial": len(total["nontrivial_hashes"]),
        "rule": mod.RULE,
        "samples": total["samples"][:6] or [{"note": "no sample captured"}],
        "exhaustive": False,
        "planned_runs": planned,
        "stopped_at_wall_cap": capped,
        "runs_per_hour": int(n / wall * 3600) if wall > 0 else 0,
        "seeds": {"VERIF_SEED": args.seed, "run_index_range": [args.start, args.start + n]},
        "simulated_time": {"total": round(total["sim_time"], 3), "unit": getattr(mod, "SIM_TIME_UNIT", "steps")},
        "simulator_steps": total["steps"],
        "faults": faults,
        "probes": dict(sorted(total["probes"].items())),
        "distinct_interleavings": len(total["ihashes"]),
        "distinct_histories": len(total["hhashes"]),
        "new_in_last_10pct": late_new,
        "hash_cap": HASH_CAP,
        "real_vs_stub": getattr(mod, "REAL_STUB", {}),
        "determinism_selftest": {
            "indices_rerun_in_second_process": opts.get("selftest_n", 0),
            "mismatches": sum(1 for h in harness_errors if "determinism" in h),
        },
        "known_findings_hit": [
            {"kind": k[0], "key": k[1], "runs": c} for k, c in sorted(known_hits.items())
        ],
        "jobs": args.jobs,
        "repo": repo_rev(),
    }
    ev = {
        "property_id": mod.ID,
        "tier": args.tier,
        "seed": args.seed,
        "level": "exploration",
        "coverage": cov,
        "assumptions": list(getattr(mod, "ASSUMPTIONS", [])),
        "wall_s": round(wall, 2),
        "violations": nviol,
    }
    d = os.path.join(VERIF_DIR, "evidence")
    os.makedirs(d, exist_ok=True)
    tmp = os.path.join(d, f".{mod.ID}.json.tmp")
    with open(tmp, "w") as f:
        json.dump(ev, f, indent=1, default=repr)
    os.replace(tmp, os.path.join(d, f"{mod.ID}.json"))
