"""One integer decides everything: named choice streams, recorded and replayable.

A run of property P with index i owns one Tape.  Every decision anywhere in the
simulator is ``tape.draw(stream, n)`` -- an integer in [0, n).  In generation mode
each stream is a ``random.Random`` seeded from sha256(VERIF_SEED, P, i, stream).  In
replay mode each stream is a recorded list; reads past the end return 0 (every
generator treats 0 as its simplest choice) and out-of-range values are reduced
modulo n, so that any list of non-negative integers is a valid tape (this is what
lets the shrinker delete and lower entries freely).

The values actually used are appended to ``record[stream]``: a run is a pure
function of its record and the code.
"""

import hashlib
import random

STREAMS = ("config", "program", "faults", "schedule", "payload")


def _seed_for(seed, prop, index, stream):
    h = hashlib.sha256(f"{seed}|{prop}|{index}|{stream}".encode()).digest()
    return int.from_bytes(h[:16], "big")


class Tape:
    __slots__ = ("seed", "prop", "index", "_rngs", "_replay", "_pos", "record", "trace")

    def __init__(self, seed=None, prop=None, index=None, streams=None, trace=False):
        self.seed = seed
        self.prop = prop
        self.index = index
        self._rngs = {}
        self._replay = None
        self._pos = {}
        self.record = {}
        self.trace = [] if trace else None
        if streams is not None:
            self._replay = {k: list(v) for k, v in streams.items()}

    @property
    def replaying(self):
        return self._replay is not None

    def draw(self, stream, n, label=None):
        """Return an integer in [0, n)."""
        if n <= 1:
            v = 0
            # still recorded so that positions stay aligned between modes
        elif self._replay is not None:
            lst = self._replay.get(stream)
            pos = self._pos.get(stream, 0)
            if lst is not None and pos < len(lst):
                v = lst[pos] % n
            else:
                v = 0
            self._pos[stream] = pos + 1
        else:
            rng = self._rngs.get(stream)
            if rng is None:
                rng = self._rngs[stream] = random.Random(
                    _seed_for(self.seed, self.prop, self.index, stream)
                )
            v = rng.randrange(n)
        if n > 1:
            rec = self.record.get(stream)
            if rec is None:
                rec = self.record[stream] = []
            rec.append(v)
        if self.trace is not None and label is not None:
            self.trace.append((stream, label, v))
        return v

    # convenience -----------------------------------------------------------
    def choice(self, stream, seq, label=None):
        return seq[self.draw(stream, len(seq), label)]

    def chance(self, stream, num, den, label=None):
        """True with probability num/den; value 0 of the draw means False.

        (0 is the simplest choice: "no fault", "no extra thing".)
        """
        return self.draw(stream, den, label) >= den - num

    def rng_int(self, stream, lo, hi, label=None):
        """Integer in [lo, hi]; lo is the simplest."""
        return lo + self.draw(stream, hi - lo + 1, label)

    def weighted(self, stream, pairs, label=None):
        """pairs: [(weight, value), ...]; first entry is the simplest."""
        total = 0
        for w, _ in pairs:
            total += w
        x = self.draw(stream, total, label)
        for w, v in pairs:
            if x < w:
                return v
            x -= w
        return pairs[-1][1]

    def snapshot(self):
        return {k: list(v) for k, v in self.record.items()}


def digest_of(*parts):
    """Stable 64-bit digest of a nested structure of str/int/bytes/tuples/lists."""
    h = hashlib.blake2b(digest_size=8)
    _feed(h, parts)
    return int.from_bytes(h.digest(), "big")


def _feed(h, x):
    if isinstance(x, (tuple, list)):
        h.update(b"(")
        for y in x:
            _feed(h, y)
        h.update(b")")
    elif isinstance(x, bytes):
        h.update(b"b")
        h.update(x)
        h.update(b";")
    elif isinstance(x, dict):
        h.update(b"{")
        for k in sorted(x, key=repr):
            _feed(h, k)
            _feed(h, x[k])
        h.update(b"}")
    elif isinstance(x, (set, frozenset)):
        h.update(b"<")
        for y in sorted(x, key=repr):
            _feed(h, y)
        h.update(b">")
    else:
        h.update(repr(x).encode("utf-8", "backslashreplace"))
        h.update(b";")
