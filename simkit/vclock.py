"""Virtual clock + a stand-in for the ``datetime`` module as seen by testtools.testresult.real.

``datetime.datetime.now(utc)`` inside real.py (TestResult._now, ExtendedToStreamDecorator._now,
TimestampingStreamResult.status) returns EPOCH + ticks*1ms + reads*1us: every reading is
unique, attributable to one simulator step and identical on replay.
"""

import datetime as _dt
import types

EPOCH = _dt.datetime(2030, 1, 1, 0, 0, 0)


class VClock:
    def __init__(self):
        self.ticks = 0
        self.reads = 0
        self.read_log = None

    def tick(self, n=1):
        self.ticks += n

    def peek(self):
        """Current virtual time without consuming a reading (microseconds since EPOCH)."""
        return self.ticks * 1000 + self.reads

    def read_us(self):
        self.reads += 1
        return self.ticks * 1000 + self.reads

    def now(self, tz=None):
        us = self.read_us()
        return (EPOCH + _dt.timedelta(microseconds=us)).replace(tzinfo=tz)


def us_of(a_datetime):
    """Inverse of VClock.now: microseconds since EPOCH (None if not a datetime)."""
    if a_datetime is None:
        return None
    return int(round((a_datetime.replace(tzinfo=None) - EPOCH).total_seconds() * 1_000_000))


_current = [None]


class _ShimDateTime(_dt.datetime):
    @classmethod
    def now(cls, tz=None):
        c = _current[0]
        if c is None:
            return _dt.datetime.now(tz)
        return c.now(tz)

    @classmethod
    def utcnow(cls):
        c = _current[0]
        if c is None:
            return _dt.datetime.utcnow()
        return c.now(None)


_shim = types.SimpleNamespace(
    datetime=_ShimDateTime, timedelta=_dt.timedelta, tzinfo=_dt.tzinfo, timezone=_dt.timezone,
    date=_dt.date, time=_dt.time, UTC=_dt.timezone.utc, MINYEAR=_dt.MINYEAR, MAXYEAR=_dt.MAXYEAR,
)


def install(clock):
    """Point testtools.testresult.real at the virtual clock (idempotent per process)."""
    from testtools.testresult import real

    if real.datetime is not _shim:
        real.datetime = _shim
    _current[0] = clock


def uninstall():
    _current[0] = None


def explicit_time(k):
    """A caller-supplied timestamp that cannot be confused with a clock reading."""
    from testtools.testresult.real import utc

    return _dt.datetime(2001, 1, 1, 0, 0, 0, tzinfo=utc) + _dt.timedelta(seconds=k)
