"""Pipeline simulator pieces: a scripted *reporter* (a well-formed history of TestResult
calls), adapter-stack builders, and the small reference models (tags, verdict) shared by
C04, C08, C09 and C17."""

import sys

import testtools
from testtools import content as _content
from testtools.content_type import ContentType
from testtools.testresult.real import (
    ExtendedToOriginalDecorator, MultiTestResult, TestResultDecorator, Tagger, TestByTestResult,
)

from .targets import World, T26, T27, TExt, TTwisted, OUTCOMES
from . import vclock

TAGS = ("a", "b", "c", "d")
OUTCOME_METHODS = ("addSuccess", "addFailure", "addError", "addSkip", "addExpectedFailure", "addUnexpectedSuccess")
KIND = {"addSuccess": "success", "addFailure": "failure", "addError": "error", "addSkip": "skip",
        "addExpectedFailure": "xfail", "addUnexpectedSuccess": "uxsuccess"}
BAD = ("addFailure", "addError", "addUnexpectedSuccess")


class _Case(testtools.TestCase):
    def test_it(self):
        pass


def make_test(kind, tid):
    if kind == "testcase":
        return testtools.clone_test_with_new_id(_Case("test_it"), tid)
    if kind == "placeholder":
        return testtools.PlaceHolder(tid)
    try:
        raise RuntimeError("holder-" + tid)
    except RuntimeError:
        return testtools.ErrorHolder(tid, sys.exc_info())


def _tagpair(tape):
    new = sorted(t for t in TAGS if tape.chance("payload", 1, 3, "new-tag"))
    gone = sorted(t for t in TAGS if t not in new and tape.chance("payload", 1, 4, "gone-tag"))
    return new, gone


def gen_history(tape, max_tests=5, runs=True, tags=True, times=True, extras=True, skip_pair=False,
                modes=("details", "exc_info"), test_kinds=("testcase", "placeholder", "errorholder"),
                second_run=True, binary_details=True, rich_details=False):
    """A well-formed history of TestResult calls as data."""
    h = []
    counter = [0]
    last_time = [None]

    def mark():
        counter[0] += 1
        return counter[0]

    def one_run(first):
        if runs and (not first or tape.chance("program", 2, 3, "startTestRun")):
            h.append(["startTestRun"])
            bracket = True
        else:
            bracket = False
        n = tape.draw("program", max_tests + 1, "n-tests")
        for i in range(n):
            for _ in range(tape.draw("program", 3, "between")):
                k = tape.draw("program", 6, "between-op")
                if k <= 1 and tags:
                    h.append(["tags"] + list(_tagpair(tape)))
                elif k == 2 and times:
                    # now and then the very value supplied last (two tests back to back)
                    if last_time[0] is not None and tape.chance("program", 1, 4, "same-time-again"):
                        h.append(["time", last_time[0]])
                    else:
                        last_time[0] = mark()
                        h.append(["time", last_time[0]])
                elif k == 3 and times:
                    h.append(["time", None])
                elif k == 4 and extras:
                    h.append([tape.choice("program", ("progress", "done", "stop"), "extra")])
            tid = "t%d" % mark()
            tk = tape.choice("program", test_kinds, "test-kind")
            method = tape.choice("program", OUTCOME_METHODS, "outcome")
            if skip_pair and tape.chance("program", 1, 6, "startTest-less-skip"):
                # what unittest in Python 3.12.1 emits for a skipped stdlib test
                h.append(["outcome", tid, tk, "addSkip", "reason", {"reason": "why-%d" % mark()}])
                h.append(["stopTest", tid, tk])
                continue
            h.append(["startTest", tid, tk])
            for _ in range(tape.draw("program", 3, "inside")):
                k = tape.draw("program", 4, "inside-op")
                if k <= 1 and tags:
                    h.append(["tags"] + list(_tagpair(tape)))
                elif k == 2 and times:
                    h.append(["time", mark()])
            mode = tape.choice("program", modes, "mode")
            payload = {}
            if method == "addSkip":
                if mode == "exc_info":
                    mode = "reason"
                payload["reason"] = "why-%d" % mark()
            if method in ("addSuccess", "addUnexpectedSuccess") and mode == "exc_info":
                mode = "plain" if tape.chance("program", 1, 2, "plain") else "details"
            if mode == "details" and rich_details:
                det = {}
                for j in range(tape.draw("program", 5, "n-details")):
                    name = tape.choice("program", ("log", "traceback", "dét", "blob", "x y", "reason-ish"), "detail-name")
                    cti = tape.draw("program", len(CTYPES), "content-type")
                    nch = tape.draw("payload", 5, "n-chunks")
                    base = ("D%d-é☃" % mark()).encode("utf8") if CTYPES[cti][0] == "text" else b"\xff\x00D%d" % mark()
                    if CTYPES[cti][0] == "text" and tape.chance("payload", 1, 10, "text-detail-that-does-not-decode"):
                        base = b"\xff\xfeD%d" % mark()     # (a log with stray bytes, attached as utf8 text)
                    chunks = []
                    for c in range(nch):
                        if tape.chance("payload", 1, 4, "empty-chunk"):
                            chunks.append(b"")
                        else:
                            chunks.append(base + b"#%d" % c)
                    det[name] = ["text" if CTYPES[cti][0] == "text" else "bin", chunks, cti]
                payload["details"] = det
            elif mode == "details":
                nd = tape.draw("program", 3, "n-details")
                det = {}
                for j in range(nd):
                    name = tape.choice("program", ("log", "traceback", "dét", "blob"), "detail-name")
                    if name == "blob" and binary_details:
                        det[name] = ["bin", [b"\xff\x00B%d" % mark()]]
                    else:
                        text = "DT%d-é" % mark()
                        data = text.encode("utf8")
                        cut = tape.draw("payload", len(data), "cut")
                        chunks = [data[:cut], data[cut:]] if cut else [data]
                        if tape.chance("payload", 1, 4, "empty-chunk"):
                            chunks.insert(tape.draw("payload", len(chunks) + 1, "pos"), b"")
                        det[name] = ["text", chunks]
                if method == "addSkip" and tape.chance("program", 1, 2, "reason-detail"):
                    det["reason"] = ["text", [payload["reason"].encode("utf8")]]
                payload["details"] = det
            elif mode == "exc_info":
                payload["exc"] = "EXC%d" % mark()
            h.append(["outcome", tid, tk, method, mode, payload])
            for _ in range(tape.draw("program", 2, "after-outcome")):
                if tags and tape.chance("program", 1, 2, "tags-after-outcome"):
                    h.append(["tags"] + list(_tagpair(tape)))
                elif times and tape.chance("program", 1, 2, "time-after-outcome"):
                    h.append(["time", mark()])
            h.append(["stopTest", tid, tk])
        if tags and tape.chance("program", 1, 4, "trailing-tags"):
            h.append(["tags"] + list(_tagpair(tape)))
        if bracket and tape.chance("program", 5, 6, "stopTestRun"):
            h.append(["stopTestRun"])

    one_run(True)
    if second_run and tape.chance("program", 1, 4, "second-run"):
        one_run(False)
    return h


TEXT_CT = ContentType("text", "plain", {"charset": "utf8"})
BIN_CT = ContentType("application", "octet-stream")


# content types: lower-case tokens, parameter values without CR/LF (one with backslashes and quotes);
# charset without comma
CTYPES = (
    ("text", "plain", {"charset": "utf8"}),
    ("text", "plain", {}),
    ("text", "x-traceback", {"language": "python", "charset": "utf8"}),
    ("application", "octet-stream", {}),
    ("application", "json", {"k": "v1"}),
    ("image", "png", {"a": "1", "b": "two words"}),
    ("text", "html", {"charset": "utf8", "x": "y"}),
    ("video", "mp4", {"codecs": "avc1.42E01E, mp4a.40.2"}),
    ("text", "csv", {"delimiter": ",", "header": "x;y=z"}),
    ("text", "x-log", {"charset": "utf8", "source": "C:\\temp\\logs\\", "title": 'the "big" dump'}),   # (a value that ends in a backslash, another parameter after it)
    ("text", "plain", {"charset": "rot13"}),      # a codec Python knows, but not one that decodes bytes to text
)


def content_type_of(spec):
    if len(spec) > 2:
        t, st, params = CTYPES[spec[2]]
        return ContentType(t, st, dict(params))
    return TEXT_CT if spec[0] == "text" else BIN_CT


def build_details(det, one_shot=False):
    out = {}
    for name, spec in det.items():
        if one_shot:
            # a payload that can be read once only (what content_from_stream gives without buffer_now)
            out[name] = _content.Content(content_type_of(spec), lambda it=iter(list(spec[1])): it)
        else:
            out[name] = _content.Content(content_type_of(spec), lambda c=spec[1]: list(c))
    return out


def make_exc_info(marker):
    try:
        raise AssertionError(marker)
    except AssertionError:
        return sys.exc_info()


class Reporter:
    """Applies a history to a result object, one call at a time."""

    def __init__(self, result, history, reuse_details_dict=False):
        self.result = result
        self.history = history
        self.tests = {}
        self.i = 0
        # a reporter may refill one dict object for every outcome it reports
        self.shared = {} if reuse_details_dict else None
        self.tagsets = {}     # a reporter may hold on to its tag sets and pass the same objects again
        self.reuse_tag_sets = False
        self.last_details = None
        self.mutated_args = []
        self.one_shot_details = False

    def test(self, tid, kind):
        t = self.tests.get(tid)
        if t is None:
            t = self.tests[tid] = make_test(kind, tid)
        return t

    def step(self):
        """Perform the next call; returns the call (list) or None at the end."""
        if self.i >= len(self.history):
            return None
        c = self.history[self.i]
        self.i += 1
        r = self.result
        op = c[0]
        if op in ("startTestRun", "stopTestRun", "done", "stop"):
            getattr(r, op)()
        elif op == "progress":
            r.progress(1, 1)
        elif op == "tags":
            if self.reuse_tag_sets:
                new = self.tagsets.setdefault(("n",) + tuple(c[1]), set(c[1]))
                gone = self.tagsets.setdefault(("g",) + tuple(c[2]), set(c[2]))
                snap = (set(new), set(gone))
                r.tags(new, gone)
                if (new, gone) != snap:
                    self.mutated_args.append((c, snap, (set(new), set(gone))))
                    new.clear(); new.update(snap[0]); gone.clear(); gone.update(snap[1])
            else:
                r.tags(set(c[1]), set(c[2]))
        elif op == "time":
            r.time(None if c[1] is None else vclock.explicit_time(c[1]))
        elif op == "startTest":
            r.startTest(self.test(c[1], c[2]))
        elif op == "stopTest":
            r.stopTest(self.test(c[1], c[2]))
        elif op == "outcome":
            _, tid, tk, method, mode, payload = c
            t = self.test(tid, tk)
            m = getattr(r, method)
            if mode == "details":
                det = build_details(payload["details"], self.one_shot_details)
                if self.shared is not None:
                    self.shared.clear()
                    self.shared.update(det)
                    det = self.shared
                self.last_details = det
                m(t, details=det)
            elif mode == "exc_info":
                m(t, make_exc_info(payload["exc"]))
            elif mode == "reason":
                m(t, payload["reason"])
            else:
                m(t)
        return c


class TagModel:
    """current_tags per the property: global set, optional test-local copy."""

    def __init__(self):
        self.g = set()
        self.l = None

    def apply(self, c):
        op = c[0]
        if op == "startTestRun":
            self.g, self.l = set(), None
        elif op == "startTest":
            self.l = set(self.g)
        elif op == "stopTest":
            self.l = None
        elif op == "tags":
            cur = self.g if self.l is None else self.l
            cur |= set(c[1])
            cur -= set(c[2])

    @property
    def current(self):
        return set(self.g if self.l is None else self.l)


# ------------------------------------------------------------------------------ adapter stacks
def gen_stack(tape, depth=0, need_ext=False, allow_bytest=True, max_depth=3, allow_tfr=False, allow_tagger=True):
    """Returns a stack spec (nested lists).  need_ext: the node must accept details=."""
    terminals = [(2, "extended"), (2, "testtools")]
    if not need_ext:
        terminals += [(2, "2.6"), (2, "2.7"), (1, "twisted")]
    if allow_bytest:
        terminals += [(1, "bytest")]
    if depth >= max_depth:
        return [tape.weighted("config", terminals, "terminal")]
    # (no Tagger beneath a ThreadsafeForwardingResult: the forwarder replays run-level tags after the
    # startTest it synthesises, so how they combine with a Tagger's removals below it is not specified)
    adapters = [(3, "e2o"), (3, "multi"), (2, "trd")] + ([(2, "tagger")] if allow_tagger else []) + ([(2, "tfr")] if allow_tfr else [])
    if depth == 0:
        kind = tape.weighted("config", adapters, "top")
    else:
        kind = tape.weighted("config", adapters + terminals, "node")
    if kind == "e2o":
        return ["e2o", gen_stack(tape, depth + 1, False, allow_bytest, max_depth, allow_tfr, allow_tagger)]
    if kind == "multi":
        n = 1 + tape.draw("config", 3, "fanout")
        return ["multi"] + [gen_stack(tape, depth + 1, False, allow_bytest, max_depth, allow_tfr, allow_tagger) for _ in range(n)]
    if kind == "tfr":
        return ["tfr", gen_stack(tape, depth + 1, False, allow_bytest, max_depth, allow_tfr, False)]
    if kind == "trd":
        return ["trd", gen_stack(tape, depth + 1, True, allow_bytest, max_depth, allow_tfr, allow_tagger)]
    if kind == "tagger":
        new, gone = _tagpair(tape)
        return ["tagger", new, gone, gen_stack(tape, depth + 1, True, allow_bytest, max_depth, allow_tfr, allow_tagger)]
    return [kind]


class Built:
    def __init__(self):
        self.terminals = []   # dicts: name, flavour, obj, path (list of adapter kinds above it, top first), taggers
        self.bytest = []
        self.nodes = []       # every testtools-owned object in the stack: (kind, obj, path)


def build_stack(spec, world, built, path=(), taggers=(), make_testtools=None):
    kind = spec[0]
    n = len(built.terminals) + len(built.bytest)
    if kind in ("2.6", "2.7", "extended", "twisted"):
        cls = {"2.6": T26, "2.7": T27, "extended": TExt, "twisted": TTwisted}[kind]
        obj = cls(world, f"{kind}#{n}")
        built.terminals.append({"name": obj._name, "flavour": kind, "obj": obj, "path": list(path), "taggers": list(taggers)})
        return obj
    if kind == "testtools":
        obj = make_testtools(world, f"testtools#{n}")
        built.terminals.append({"name": obj._name, "flavour": "testtools", "obj": obj, "path": list(path), "taggers": list(taggers)})
        built.nodes.append(("testtools", obj, list(path)))
        return obj
    if kind == "bytest":
        log = []
        from .targets import snap_details
        # (the details are read at the callback: a reporter may refill the same dict afterwards)
        obj = TestByTestResult(lambda **kw: log.append(dict(kw, seq=world.tick(), snap=snap_details(kw.get("details")))))
        built.bytest.append({"name": f"bytest#{n}", "obj": obj, "log": log, "path": list(path), "taggers": list(taggers)})
        built.nodes.append(("bytest", obj, list(path)))
        return obj
    if kind == "e2o":
        inner = build_stack(spec[1], world, built, path + ("e2o",), taggers, make_testtools)
        obj = ExtendedToOriginalDecorator(inner)
    elif kind == "multi":
        inners = [build_stack(s, world, built, path + ("multi",), taggers, make_testtools) for s in spec[1:]]
        obj = MultiTestResult(*inners)
    elif kind == "tfr":
        import threading
        from testtools.testresult.real import ThreadsafeForwardingResult
        inner = build_stack(spec[1], world, built, path + ("tfr",), taggers, make_testtools)
        obj = ThreadsafeForwardingResult(inner, threading.Semaphore(1))
    elif kind == "trd":
        inner = build_stack(spec[1], world, built, path + ("trd",), taggers, make_testtools)
        obj = TestResultDecorator(inner)
    elif kind == "tagger":
        inner = build_stack(spec[3], world, built, path + ("tagger",), taggers + ((tuple(spec[1]), tuple(spec[2])),), make_testtools)
        obj = Tagger(inner, set(spec[1]), set(spec[2]))
    else:
        raise AssertionError(kind)
    built.nodes.append((kind, obj, list(path)))
    return obj


# ------------------------------------------------------------------------------- decoy pipeline
DECOY_HISTORY = [
    ["startTestRun"], ["tags", ["dk"], []], ["time", 777001],
    ["startTest", "decoy0", "placeholder"], ["tags", ["dl"], ["dk"]],
    ["outcome", "decoy0", "placeholder", "addError", "details", {"details": {"dd": ["text", [b"decoy-", b"detail"]]}}],
    ["stopTest", "decoy0", "placeholder"],
    ["startTest", "decoy1", "placeholder"],
    ["outcome", "decoy1", "placeholder", "addSkip", "reason", {"reason": "decoy-why"}],
    ["stopTest", "decoy1", "placeholder"],
    ["time", 777002],
    ["startTest", "decoy2", "testcase"],
    ["outcome", "decoy2", "testcase", "addFailure", "exc_info", {"exc": "DECOY-EXC"}],
    ["time", 777003],
    ["stopTest", "decoy2", "testcase"],
    ["startTest", "decoy3", "placeholder"],
    ["outcome", "decoy3", "placeholder", "addUnexpectedSuccess", "plain", {}],
    ["stopTest", "decoy3", "placeholder"],
    ["stopTestRun"],
]


def _decoy_view(world, built):
    """What a second, independent pipeline delivered - without anything clock-dependent."""
    view = []
    for e in world.events:
        if e.method == "time":
            continue
        d = e.data or {}
        det = d.get("details")
        tg = d.get("tags", d.get("test_tags"))
        view.append((e.target, e.method, e.test_id, d.get("test_status"), None if tg is None else tuple(sorted(tg)),
                     d.get("file_name"), d.get("file_bytes"), d.get("route_code"),
                     None if det is None else tuple(sorted((k, v["bytes"]) for k, v in det.items())),
                     repr(d.get("reason")), repr((d.get("err") or {}).get("type") if isinstance(d.get("err"), dict) else None)))
    for b in built.bytest:
        for kw in b["log"]:
            view.append((b["name"], "on_test", kw["test"].id(), kw["status"], tuple(sorted(kw.get("tags") or ())),
                         None if kw.get("snap") is None else tuple(sorted((k, v["bytes"]) for k, v in kw["snap"].items()))))
    return view


class Decoy:
    """A second pipeline of the same shape in the same process, fed its own fixed history one call at
    a time between the calls of the main one.  Two pipelines that share no object must not influence
    each other: what the decoy delivers interleaved has to equal what it delivers when run alone."""

    def __init__(self, factory, history=None):
        """factory(world, built) -> the reporter-side object of a fresh pipeline."""
        self.factory = factory
        self.history = DECOY_HISTORY if history is None else history
        self.reference = self._run_alone()
        self.world = World()
        self.built = Built()
        self.rep = Reporter(factory(self.world, self.built), self.history)
        self.raised = None

    @classmethod
    def for_spec(cls, spec, make_testtools):
        return cls(lambda w, b: build_stack(spec, w, b, make_testtools=make_testtools))

    def _run_alone(self):
        w, b = World(), Built()
        rep = Reporter(self.factory(w, b), self.history)
        try:
            while rep.step() is not None:
                pass
        except Exception as e:   # the stack cannot take this history at all (say, a 2.6 terminal and details): no decoy
            return None
        return _decoy_view(w, b)

    def step(self):
        if self.reference is None or self.raised is not None:
            return
        try:
            self.rep.step()
        except Exception as e:   # noqa
            self.raised = e

    def finish(self, out, spec):
        if self.reference is None:
            return
        while self.raised is None and self.rep.i < len(self.history):
            self.step()
        if self.raised is not None:
            out.violate("pipelines-interfere", "decoy-raised:" + type(self.raised).__name__,
                        f"a second pipeline of shape {spec} raised {self.raised!r} when interleaved with the main one, not when run alone")
            return
        got = _decoy_view(self.world, self.built)
        if got != self.reference:
            diff = next((i for i, (a, b) in enumerate(zip(got, self.reference)) if a != b), min(len(got), len(self.reference)))
            out.violate("pipelines-interfere", "decoy-delivery-differs",
                        f"a second pipeline of shape {spec} delivered something else when interleaved with the main one: item {diff}: "
                        f"{got[diff] if diff < len(got) else None} vs alone {self.reference[diff] if diff < len(self.reference) else None}")
